//! SplitMix64 stream; every random choice of the harness derives from it.

#[inline]
pub fn mix(mut z: u64) -> u64 {
    z = z.wrapping_add(0x9E37_79B9_7F4A_7C15);
    z = (z ^ (z >> 30)).wrapping_mul(0xBF58_476D_1CE4_E5B9);
    z = (z ^ (z >> 27)).wrapping_mul(0x94D0_49BB_1331_11EB);
    z ^ (z >> 31)
}

pub fn hash_str(s: &str) -> u64 {
    let mut h = 0xcbf2_9ce4_8422_2325u64;
    for b in s.bytes() {
        h ^= b as u64;
        h = h.wrapping_mul(0x100_0000_01b3);
    }
    mix(h)
}

#[derive(Clone, Debug)]
pub struct Rng(pub u64);

impl Rng {
    pub fn new(seed: u64) -> Self {
        Rng(mix(seed))
    }
    /// Stream keyed by (seed, property/purpose, case index).
    pub fn keyed(seed: u64, key: &str, idx: u64) -> Self {
        Rng(mix(seed ^ mix(hash_str(key) ^ mix(idx))))
    }
    #[inline]
    pub fn next(&mut self) -> u64 {
        self.0 = self.0.wrapping_add(0x9E37_79B9_7F4A_7C15);
        let mut z = self.0;
        z = (z ^ (z >> 30)).wrapping_mul(0xBF58_476D_1CE4_E5B9);
        z = (z ^ (z >> 27)).wrapping_mul(0x94D0_49BB_1331_11EB);
        z ^ (z >> 31)
    }
    pub fn below(&mut self, n: u64) -> u64 {
        if n == 0 {
            0
        } else {
            self.next() % n
        }
    }
    pub fn range(&mut self, lo: u64, hi_incl: u64) -> u64 {
        lo + self.below(hi_incl - lo + 1)
    }
    pub fn usize_below(&mut self, n: usize) -> usize {
        self.below(n as u64) as usize
    }
    pub fn chance(&mut self, num: u64, den: u64) -> bool {
        self.below(den) < num
    }
    pub fn pick<'a, T>(&mut self, xs: &'a [T]) -> &'a T {
        &xs[self.usize_below(xs.len())]
    }
    pub fn bytes(&mut self, n: usize) -> Vec<u8> {
        let mut v = Vec::with_capacity(n + 8);
        while v.len() < n {
            v.extend_from_slice(&self.next().to_le_bytes());
        }
        v.truncate(n);
        v
    }
    pub fn shuffle<T>(&mut self, xs: &mut [T]) {
        for i in (1..xs.len()).rev() {
            let j = self.usize_below(i + 1);
            xs.swap(i, j);
        }
    }
}

/// Small stable fingerprint helper (FNV-1a over bytes, then mixed).
#[derive(Clone)]
pub struct Fp(u64);
impl Default for Fp {
    fn default() -> Self {
        Fp(0xcbf2_9ce4_8422_2325)
    }
}
impl Fp {
    pub fn new() -> Self {
        Self::default()
    }
    pub fn u(&mut self, v: u64) -> &mut Self {
        for b in v.to_le_bytes() {
            self.0 ^= b as u64;
            self.0 = self.0.wrapping_mul(0x100_0000_01b3);
        }
        self
    }
    pub fn s(&mut self, s: &str) -> &mut Self {
        for b in s.bytes() {
            self.0 ^= b as u64;
            self.0 = self.0.wrapping_mul(0x100_0000_01b3);
        }
        self.u(0xff)
    }
    pub fn b(&mut self, s: &[u8]) -> &mut Self {
        for b in s {
            self.0 ^= *b as u64;
            self.0 = self.0.wrapping_mul(0x100_0000_01b3);
        }
        self.u(0xfe)
    }
    pub fn hex(&self) -> String {
        format!("{:016x}", mix(self.0))
    }
}
