pub mod c01;
pub mod content;
pub mod proto;
pub mod rng;
pub mod util;
