//! C07 — concurrent readers of one container always get exactly the stored bytes.
//!
//! Workloads: (container) many threads over a container with more compressed clusters than cache
//! slots, real codecs; (pure) the crate's background decoder fed by a pure-Rust chunked `Read`
//! through the `jubako::verif::region_from_decoder` hook (this is what TSan and Miri can follow).
//! Monitors: end-to-end byte oracle on every returned range; online checker of the length
//! publication protocol over the cfg(jubako_verif) hook events, with seeded delay injection.

use crate::c01::Pkg;
use crate::cont::*;
use crate::content::*;
use crate::dirs::*;
use crate::proto::*;
use crate::rng::{mix, Fp, Rng};
use crate::util::{self, Scratch};
use jubako as jbk;
use jubako::reader::{ByteRegion, Range as _};
use jubako::verif::Event;
use serde_json::{json, Value};
use std::collections::HashMap;
use std::io::Read;
use std::sync::atomic::{AtomicBool, AtomicU64, Ordering};
use std::sync::{Arc, Barrier, Mutex, OnceLock};

// ------------------------------------------------------------------------------------------------
// hook: event monitor + delay injection

#[derive(Default, Clone)]
struct BufState {
    size: usize,
    written_to: usize,
    published: usize,
    done: Option<bool>,
    sig: u64,
    last_kind: u8,
    events: u64,
    readers_blocked: u64,
}

#[derive(Default)]
struct MonState {
    bufs: HashMap<usize, BufState>,
    violations: Vec<(String, String)>,
    tally: HashMap<&'static str, u64>,
    signatures: std::collections::BTreeSet<u64>,
    active_decodes: i64,
    max_active_decodes: i64,
    cluster_miss: HashMap<u32, u32>,
}

static MON: OnceLock<Mutex<MonState>> = OnceLock::new();
static DELAY_SEED: AtomicU64 = AtomicU64::new(0);
static DELAY_LEVEL: AtomicU64 = AtomicU64::new(0);
static HOOK_ON: AtomicBool = AtomicBool::new(false);
static STAMP: AtomicU64 = AtomicU64::new(0);
static RDV_WAITING: AtomicU64 = AtomicU64::new(0);
static RDV_GEN: AtomicU64 = AtomicU64::new(0);
static RDV_MET: AtomicU64 = AtomicU64::new(0);
/// long stall: at delay level 3 the first decoded chunk of a case is held back for 650 ms before it is published
static STALL: AtomicU64 = AtomicU64::new(0);
static STALLS_DONE: AtomicU64 = AtomicU64::new(0);
thread_local! { static FRESH: std::cell::Cell<bool> = const { std::cell::Cell::new(false) }; }

fn mon() -> &'static Mutex<MonState> {
    MON.get_or_init(Default::default)
}

fn bad(st: &mut MonState, kind: &str, what: String) {
    if st.violations.len() < 16 {
        st.violations.push((kind.to_string(), what));
    }
}

fn sig_step(b: &mut BufState, kind: u8) {
    b.events += 1;
    if b.last_kind != kind {
        b.last_kind = kind;
        b.sig = mix(b.sig ^ kind as u64);
    }
}

fn hook(ev: &Event) {
    if !HOOK_ON.load(Ordering::Relaxed) {
        return;
    }
    let stamp = STAMP.fetch_add(1, Ordering::Relaxed);
    {
        let mut guard = mon().lock().unwrap_or_else(|p| p.into_inner());
        let st = &mut *guard;
        match *ev {
            Event::BufCreated { buf, size } => {
                if let Some(old) = st.bufs.remove(&buf) {
                    st.signatures.insert(old.sig);
                }
                st.bufs.insert(buf, BufState { size, ..Default::default() });
                st.active_decodes += 1;
                st.max_active_decodes = st.max_active_decodes.max(st.active_decodes);
                *st.tally.entry("buffers").or_default() += 1;
            }
            Event::ChunkWritten { buf, from, to, len, cap, ptr } => {
                let mut err = None;
                if let Some(b) = st.bufs.get_mut(&buf) {
                    if from != b.written_to {
                        err = Some(("chunk-not-contiguous", format!("chunk written at [{from},{to}) but previous chunk ended at {}", b.written_to)));
                    }
                    if to > b.size || len != to {
                        err = Some(("chunk-beyond-size", format!("chunk [{from},{to}) vector len {len}, buffer size {}", b.size)));
                    }
                    if ptr != buf || cap < b.size {
                        err = Some(("buffer-reallocated", format!("writer's vector moved or shrank: ptr {ptr:#x} (buffer {buf:#x}) capacity {cap} size {}", b.size)));
                    }
                    b.written_to = to;
                    sig_step(b, b'c');
                }
                if let Some((k, w)) = err {
                    bad(st, k, w);
                }
                *st.tally.entry("chunks").or_default() += 1;
            }
            Event::Published { buf, len } => {
                let mut err = None;
                if let Some(b) = st.bufs.get_mut(&buf) {
                    if len < b.published {
                        err = Some(("published-decreases", format!("published length goes from {} to {len}", b.published)));
                    }
                    if len > b.size {
                        err = Some(("published-beyond-size", format!("published length {len} > buffer size {}", b.size)));
                    }
                    if len != b.written_to {
                        err = Some(("published-unwritten", format!("published length {len} but bytes are written up to {}", b.written_to)));
                    }
                    b.published = b.published.max(len);
                    sig_step(b, b'P');
                }
                if let Some((k, w)) = err {
                    bad(st, k, w);
                }
            }
            Event::DecodeDone { buf, ok } => {
                let mut err = None;
                if let Some(b) = st.bufs.get_mut(&buf) {
                    if ok && b.published != b.size {
                        err = Some(("done-short", format!("decoder finished normally with {} of {} bytes published", b.published, b.size)));
                    }
                    b.done = Some(ok);
                    sig_step(b, b'D');
                    st.active_decodes -= 1;
                }
                if let Some((k, w)) = err {
                    bad(st, k, w);
                }
            }
            Event::WaitBegin { buf, end, seen } => {
                if let Some(b) = st.bufs.get_mut(&buf) {
                    if seen < end {
                        b.readers_blocked += 1;
                        sig_step(b, b'w');
                    } else {
                        sig_step(b, b'r');
                    }
                }
                *st.tally.entry(if seen < end { "reads_that_blocked" } else { "reads_already_decoded" }).or_default() += 1;
            }
            Event::WaitReturn { buf, seen } => {
                let mut err = None;
                if let Some(b) = st.bufs.get_mut(&buf) {
                    if seen > b.published {
                        err = Some(("reader-sees-unpublished", format!("a reader saw length {seen}, only {} was published", b.published)));
                    }
                }
                if let Some((k, w)) = err {
                    bad(st, k, w);
                }
            }
            Event::WaitEnd { buf, end, seen } => {
                let mut err = None;
                if let Some(b) = st.bufs.get_mut(&buf) {
                    if seen < end && b.done != Some(false) {
                        err = Some(("wait-returned-early", format!("a reader waiting for {end} bytes was released with {seen}")));
                    }
                    sig_step(b, b'W');
                }
                if let Some((k, w)) = err {
                    bad(st, k, w);
                }
            }
            Event::Slice { buf, len } => {
                let mut err = None;
                if let Some(b) = st.bufs.get_mut(&buf) {
                    if len > b.published {
                        err = Some(("slice-beyond-published", format!("a reader built a slice of {len} bytes, {} were published", b.published)));
                    }
                    if b.done.is_none() {
                        *st.tally.entry("slices_during_decode").or_default() += 1;
                    }
                    sig_step(b, b's');
                }
                if let Some((k, w)) = err {
                    bad(st, k, w);
                }
            }
            Event::VecCacheHit { .. } => *st.tally.entry("veccache_hit").or_default() += 1,
            Event::VecCacheMiss { .. } => *st.tally.entry("veccache_miss").or_default() += 1,
            Event::VecCacheFilled { .. } => *st.tally.entry("veccache_filled").or_default() += 1,
            Event::ClusterGet { cached, .. } => {
                *st.tally.entry("cluster_get").or_default() += 1;
                let e = st.tally.entry("max_clusters_cached").or_default();
                *e = (*e).max(cached as u64);
            }
            Event::ClusterMiss { idx } => {
                *st.cluster_miss.entry(idx).or_default() += 1;
                *st.tally.entry("cluster_parsed").or_default() += 1;
            }
            Event::BuildPlainBegin => {}
            Event::BuildPlainAlready => *st.tally.entry("build_plain_already").or_default() += 1,
            Event::BuildPlainInstalled => *st.tally.entry("build_plain_installed").or_default() += 1,
            Event::PackSlotHit { .. } => *st.tally.entry("packslot_hit").or_default() += 1,
            Event::PackSlotMiss { .. } => *st.tally.entry("packslot_miss").or_default() += 1,
        }
    }
    // delay injection: never under the library's lock (Published / WaitReturn are emitted under it)
    let level = DELAY_LEVEL.load(Ordering::Relaxed);
    if level == 0 {
        return;
    }
    let under_lock = matches!(ev, Event::Published { .. } | Event::WaitReturn { .. });
    if under_lock {
        return;
    }
    // rendezvous: a thread that has just parsed a cluster afresh waits (spinning, bounded) at the entry of
    // build_plain_reader until another thread arrives there too, so that first accesses to a cluster enter together
    match ev {
        Event::ClusterMiss { .. } => FRESH.with(|f| f.set(true)),
        Event::BuildPlainBegin => {
            let fresh = FRESH.with(|f| f.replace(false));
            if RDV_WAITING.load(Ordering::Acquire) > 0 {
                RDV_GEN.fetch_add(1, Ordering::AcqRel);
                RDV_MET.fetch_add(1, Ordering::Relaxed);
                return;
            }
            if fresh {
                let gen = RDV_GEN.load(Ordering::Acquire);
                RDV_WAITING.fetch_add(1, Ordering::AcqRel);
                let t0 = std::time::Instant::now();
                let budget = std::time::Duration::from_micros(40 * level);
                while RDV_GEN.load(Ordering::Acquire) == gen && t0.elapsed() < budget {
                    std::hint::spin_loop();
                }
                RDV_WAITING.fetch_sub(1, Ordering::AcqRel);
                return;
            }
        }
        _ => {}
    }
    if let Event::ChunkWritten { .. } = ev {
        // a decoder that goes quiet for longer than any plausible time-out while readers wait for its first bytes:
        // they must simply keep waiting (no schedule may turn a slow decoder into an error or foreign bytes)
        if STALL.swap(0, Ordering::AcqRel) == 1 {
            std::thread::sleep(std::time::Duration::from_millis(650));
            STALLS_DONE.fetch_add(1, Ordering::Relaxed);
            return;
        }
    }
    let tid = thread_tag();
    let h = mix(DELAY_SEED.load(Ordering::Relaxed) ^ mix(stamp) ^ tid);
    let p = h % 1000;
    let (sleep_permille, max_us) = match level {
        1 => (2, 100),
        2 => (10, 300),
        _ => (40, 300),
    };
    let boost = matches!(ev, Event::ChunkWritten { .. } | Event::WaitBegin { .. } | Event::BuildPlainBegin | Event::ClusterMiss { .. }) as u64;
    if p < sleep_permille * (1 + 3 * boost) {
        std::thread::sleep(std::time::Duration::from_micros(1 + (h >> 20) % max_us));
    } else if p < 300 {
        std::thread::yield_now();
    }
}

fn thread_tag() -> u64 {
    thread_local! { static TAG: u64 = { static N: AtomicU64 = AtomicU64::new(1); N.fetch_add(1, Ordering::Relaxed) }; }
    TAG.with(|t| *t)
}

pub fn install_hook() {
    static ONCE: OnceLock<()> = OnceLock::new();
    ONCE.get_or_init(|| {
        jbk::verif::set_hook(Box::new(hook));
    });
}

fn monitor_reset(delay_seed: u64, level: u64) {
    let mut st = mon().lock().unwrap_or_else(|p| p.into_inner());
    st.violations.clear();
    st.tally.clear();
    st.signatures.clear();
    st.cluster_miss.clear();
    // Decoders started by the previous case may still be running (a reader returns as soon as the bytes it needs
    // are published): their events were not recorded while the hook was off, so their buffers must not be
    // shadowed any more. Only buffers created during this case are monitored.
    st.bufs.clear();
    st.active_decodes = 0;
    st.max_active_decodes = 0;
    DELAY_SEED.store(delay_seed, Ordering::Relaxed);
    DELAY_LEVEL.store(level, Ordering::Relaxed);
    STALL.store((level == 3) as u64, Ordering::Release);
    HOOK_ON.store(true, Ordering::Relaxed);
}

fn monitor_collect(out: &mut CaseOut) {
    HOOK_ON.store(false, Ordering::Relaxed);
    DELAY_LEVEL.store(0, Ordering::Relaxed);
    let mut st = mon().lock().unwrap_or_else(|p| p.into_inner());
    let bufs: Vec<BufState> = st.bufs.values().cloned().collect();
    for b in &bufs {
        st.signatures.insert(b.sig);
    }
    for (k, v) in &st.tally {
        if k.starts_with("max_") {
            out.obs.max(&k[4..], *v);
        } else {
            out.obs.add(&format!("hook.{k}"), *v);
        }
    }
    for s in &st.signatures {
        out.obs.set("schedule_signatures", format!("{s:016x}"));
    }
    out.obs.max("simultaneous_decodes", st.max_active_decodes.max(0) as u64);
    out.obs.add("first_accesses_entered_together(rendezvous)", RDV_MET.swap(0, Ordering::Relaxed));
    out.obs.add("decoder_stalls_of_650ms_injected", STALLS_DONE.swap(0, Ordering::Relaxed));
    STALL.store(0, Ordering::Release);
    let redecoded = st.cluster_miss.values().filter(|c| **c > 1).count();
    out.obs.add("clusters_parsed_more_than_once(evicted)", redecoded as u64);
    for (k, w) in st.violations.clone() {
        out.violate(json!({"kind": "protocol", "rule": k, "profile": profile()}), format!("C07: hook monitor: {w}"), json!({}));
    }
}

// ------------------------------------------------------------------------------------------------
// pure-Rust chunked decoder (what TSan/Miri can follow)

pub struct ChunkyDecoder {
    data: Arc<Vec<u8>>,
    pos: usize,
    rng: Rng,
    /// biggest piece handed out per `read` call
    pub max_piece: usize,
    pub yields: bool,
}

impl ChunkyDecoder {
    pub fn new(data: Arc<Vec<u8>>, seed: u64, max_piece: usize, yields: bool) -> Self {
        ChunkyDecoder { data, pos: 0, rng: Rng::new(seed), max_piece, yields }
    }
}

impl Read for ChunkyDecoder {
    fn read(&mut self, buf: &mut [u8]) -> std::io::Result<usize> {
        if self.yields && self.rng.chance(1, 3) {
            std::thread::yield_now();
        }
        let left = self.data.len() - self.pos;
        if left == 0 || buf.is_empty() {
            return Ok(0);
        }
        let piece = 1 + self.rng.usize_below(self.max_piece.min(left).min(buf.len()));
        buf[..piece].copy_from_slice(&self.data[self.pos..self.pos + piece]);
        self.pos += piece;
        Ok(piece)
    }
}

/// One reader's operation mix on a region whose expected bytes are `exp`. Returns the first mismatch.
pub fn reader_ops(region: &ByteRegion, exp: &[u8], rng: &mut Rng, n_ops: usize, tally: &mut Tally) -> Result<(), String> {
    if region.size().into_u64() != exp.len() as u64 {
        return Err(format!("region size {} != {}", region.size().into_u64(), exp.len()));
    }
    for _ in 0..n_ops {
        match rng.below(6) {
            0 => {
                // whole content through a stream, read in chunks
                let mut s = region.stream();
                let mut got = Vec::with_capacity(exp.len());
                let mut buf = vec![0u8; *rng.pick(&[512usize, 4096, 65536, 1 << 20])];
                loop {
                    let n = s.read(&mut buf).map_err(|e| format!("stream read: {e}"))?;
                    if n == 0 {
                        break;
                    }
                    got.extend_from_slice(&buf[..n]);
                    if got.len() > exp.len() {
                        break;
                    }
                }
                tally.inc("op.stream_whole");
                tally.add("bytes_compared", got.len() as u64);
                if got != exp {
                    let pos = got.iter().zip(exp.iter()).position(|(a, b)| a != b).unwrap_or(got.len().min(exp.len()));
                    return Err(format!("whole-content stream differs (len {} vs {}), first difference at {pos}", got.len(), exp.len()));
                }
            }
            1 | 2 => {
                // partial range near the tail: forces a wait while decoding
                if exp.is_empty() {
                    continue;
                }
                let n = 1 + rng.usize_below(exp.len().min(5000));
                let o = if rng.chance(2, 3) { exp.len() - n } else { rng.usize_below(exp.len() - n + 1) };
                let s = region.get_slice(jbk::Offset::from(o as u64), n).map_err(|e| format!("get_slice({o},{n}): {e}"))?;
                tally.inc("op.get_slice");
                tally.add("bytes_compared", n as u64);
                if s.as_ref() != &exp[o..o + n] {
                    return Err(format!("get_slice({o},{n}) returned other bytes (content of {} bytes)", exp.len()));
                }
            }
            3 => {
                // sub-cut then stream
                let o = rng.usize_below(exp.len() + 1);
                let n = rng.usize_below(exp.len() - o + 1).min(200_000);
                let cut = region.cut(jbk::Offset::from(o as u64), jbk::Size::from(n as u64));
                let mut got = Vec::with_capacity(n);
                cut.stream().read_to_end(&mut got).map_err(|e| format!("cut stream: {e}"))?;
                tally.inc("op.cut_stream");
                tally.add("bytes_compared", n as u64);
                if got != exp[o..o + n] {
                    return Err(format!("cut({o},{n}) streamed other bytes"));
                }
            }
            4 => {
                // read from the middle with read_exact semantics through a stream positioned by a cut
                if exp.len() < 2 {
                    continue;
                }
                let o = exp.len() / 2;
                let cut = region.cut(jbk::Offset::from(o as u64), jbk::Size::from((exp.len() - o) as u64));
                let mut buf = vec![0u8; (exp.len() - o).min(70_000)];
                cut.stream().read_exact(&mut buf).map_err(|e| format!("read_exact: {e}"))?;
                tally.inc("op.read_exact_mid");
                tally.add("bytes_compared", buf.len() as u64);
                if buf != exp[o..o + buf.len()] {
                    return Err(format!("read_exact at {o} returned other bytes"));
                }
            }
            _ => {
                // tiny read at the very beginning (does not need to wait for the whole decode)
                let n = exp.len().min(64);
                let s = region.get_slice(jbk::Offset::from(0u64), n).map_err(|e| format!("get_slice(0,{n}): {e}"))?;
                tally.inc("op.head");
                if s.as_ref() != &exp[..n] {
                    return Err("head slice returned other bytes".to_string());
                }
            }
        }
    }
    Ok(())
}

// ------------------------------------------------------------------------------------------------
// container fixture (built once per worker process)

pub struct Fixture {
    pub path: std::path::PathBuf,
    pub expected: Vec<Arc<Vec<u8>>>,
    pub addrs: Vec<jbk::ContentAddress>,
    pub n_entries: u32,
    pub comp: Comp,
    _scratch: Scratch,
}

static FIXTURES: OnceLock<Mutex<HashMap<u64, Arc<Fixture>>>> = OnceLock::new();

pub fn fixture(seed: u64, which: u64, tier: Tier, work: &std::path::Path) -> Result<Arc<Fixture>, String> {
    let map = FIXTURES.get_or_init(Default::default);
    if let Some(f) = map.lock().unwrap().get(&which) {
        return Ok(f.clone());
    }
    let mut rng = Rng::keyed(seed, "C07-fixture", which);
    let comp = [Comp::Zstd(1), Comp::Lz4(0), Comp::Lzma(0)][(which % 3) as usize];
    // > 40 clusters: big compressed ones (one 2.1 MiB content each -> 500+ decode chunks), tiny-blob ones, raw ones
    let n_big = match (tier, comp) {
        (_, Comp::Lzma(_)) => 14,
        (Tier::Quick, _) => 56,
        (Tier::Thorough, _) => 80,
    };
    let mut items = vec![];
    for i in 0..n_big {
        items.push(Item { len: 2_150_000 + rng.below(5000) as usize, ent: Ent::Low4, hint: Hint::Yes, src: Src::Mem, dup_of: None, cat_of: None });
        if i % 4 == 0 {
            items.push(Item { len: rng.range(1, 90_000) as usize, ent: Ent::High, hint: Hint::No, src: Src::Mem, dup_of: None, cat_of: None });
        }
        if i % 5 == 0 {
            for _ in 0..20 {
                items.push(Item { len: rng.range(0, 3000) as usize, ent: Ent::Mid6, hint: Hint::Yes, src: Src::Mem, dup_of: None, cat_of: None });
            }
        }
    }
    if let Comp::Lzma(_) = comp {
        // make up the number of clusters with cheap ones (4095 blobs close a cluster)
        for b in 0..30 {
            for _ in 0..4095 {
                items.push(Item { len: 1 + b % 2, ent: Ent::Low4, hint: Hint::Yes, src: Src::Mem, dup_of: None, cat_of: None });
            }
        }
    }
    let n = items.len();
    let content = ContentCase { seed: rng.next(), comp, cached: false, items };
    let files = StoreDef {
        n: 600,
        common: vec![
            PDef { name: "cid".into(), kind: PKind::UInt, col: Col::Seq },
            PDef { name: "path".into(), kind: PKind::Array { prefix: 2, store: 0 }, col: Col::Seq },
            PDef { name: "tag".into(), kind: PKind::Array { prefix: 0, store: 1 }, col: Col::Arr { max: 9, alpha: 4 } },
        ],
        variants: vec![],
        sort: None,
        unique_keys: false,
    };
    let dir = DirCase { seed: rng.next(), vstores: vec![false, true], stores: vec![files], indexes: vec![IndexDef { name: "files".into(), store: 0, offset: 0, count: 600 }], defer: 0, free: 0 };
    let case = ContCase { content, dir, pkg: Pkg::OneFile, extra: vec![], id_gap: 0, first_id: 1 };
    let scratch = Scratch::new(work, "c07fix");
    let created = create_container(&case, &scratch.dir, "c.jbk", Arc::new(()))?;
    let _ = std::fs::remove_dir_all(scratch.dir.join("inputs"));
    // keep the expected bytes of a subset (memory): every big content is regenerated once
    let expected: Vec<Arc<Vec<u8>>> = (0..n).map(|i| Arc::new(case.content.bytes_of(i))).collect();
    let f = Arc::new(Fixture { path: created.path.clone(), expected, addrs: created.addrs.clone(), n_entries: 600, comp, _scratch: scratch });
    map.lock().unwrap().insert(which, f.clone());
    Ok(f)
}

pub fn drop_fixtures() {
    if let Some(m) = FIXTURES.get() {
        m.lock().unwrap().clear();
    }
}

// ------------------------------------------------------------------------------------------------

pub fn count(tier: Tier) -> u64 {
    tier.pick(36, 144)
}

pub fn gen(seed: u64, tier: Tier, k: u64) -> Value {
    let mut rng = Rng::keyed(seed, "C07", k);
    let mode = if k % 3 == 2 { "pure" } else { "container" };
    json!({
        "mode": mode,
        "fixture": k % 3,
        "threads": *rng.pick(&[8u64, 16, 24, 32]),
        "ops": tier.pick(40, 120),
        "op_seed": rng.next(),
        "delay_seed": rng.next(),
        "delay_level": k % 4,
        "seed": seed,
        "rayon_readers": mode == "container" && k % 2 == 1,
    })
}

pub fn run(desc: &Value, ctx: &Ctx) -> CaseOut {
    let mut out = CaseOut::new();
    install_hook();
    let mode = jstr(desc, "mode").to_string();
    let threads = ju64(desc, "threads").max(1) as usize;
    let ops = ju64(desc, "ops") as usize;
    let op_seed = ju64(desc, "op_seed");
    out.obs.inc(&format!("mode.{mode}"));
    out.obs.set("thread_counts", format!("{threads}"));
    out.obs.set("delay_levels", format!("{}", ju64(desc, "delay_level")));
    let first_err: Arc<Mutex<Option<String>>> = Arc::new(Mutex::new(None));
    let tallies: Arc<Mutex<Tally>> = Arc::new(Mutex::new(Tally::default()));
    let r = util::catch(|| {
        if mode == "pure" {
            run_pure(desc, threads, ops, op_seed, &first_err, &tallies, &mut out);
        } else {
            let fx = match fixture(ju64(desc, "seed"), ju64(desc, "fixture"), ctx.tier, &ctx.work) {
                Ok(f) => f,
                Err(e) => {
                    out.inconclusive(format!("fixture creation failed (C01's concern): {e}"));
                    return;
                }
            };
            out.obs.set("codecs", fx.comp.name());
            monitor_reset(ju64(desc, "delay_seed"), ju64(desc, "delay_level"));
            let container = match jbk::reader::Container::new(&fx.path) {
                Ok(c) => Arc::new(c),
                Err(e) => {
                    out.inconclusive(format!("fixture does not open: {e}"));
                    return;
                }
            };
            // readers that are workers of a rayon pool (a parallel iterator over contents, as an extractor would do): as many
            // first reads of not-yet-decoded clusters at once as the pool has workers; decoding must not depend on one of them
            if jbool(desc, "rayon_readers") {
                use rayon::prelude::*;
                let workers = 4usize;
                if let Ok(pool) = rayon::ThreadPoolBuilder::new().num_threads(workers).build() {
                    let big: Vec<usize> = (0..fx.addrs.len()).filter(|i| fx.expected[*i].len() >= 1_000_000).collect();
                    let errs: Vec<String> = pool.install(|| {
                        big.par_iter()
                            .with_max_len(1)
                            .filter_map(|i| {
                                let r = (|| -> Result<(), String> {
                                    let region = match container.get_bytes(fx.addrs[*i]).map_err(|e| format!("get_bytes: {e}"))? {
                                        Some(jbk::reader::MayMissPack::FOUND(Some(r))) => r,
                                        _ => return Err(format!("content {i} not found")),
                                    };
                                    // the tail of the content: the reader has to wait for the background decoder
                                    let exp = &fx.expected[*i];
                                    let n = 64.min(exp.len());
                                    let s = region.get_slice(jbk::Offset::from((exp.len() - n) as u64), n).map_err(|e| format!("get_slice: {e}"))?;
                                    if s.as_ref() != &exp[exp.len() - n..] {
                                        return Err(format!("tail of content {i} differs (read from a rayon worker)"));
                                    }
                                    Ok(())
                                })();
                                r.err()
                            })
                            .collect()
                    });
                    tallies.lock().unwrap().add("reads_from_rayon_workers", big.len() as u64);
                    if let Some(e) = errs.into_iter().next() {
                        let mut f = first_err.lock().unwrap();
                        if f.is_none() {
                            *f = Some(e);
                        }
                    }
                }
            }
            let barrier = Arc::new(Barrier::new(threads));
            std::thread::scope(|s| {
                for t in 0..threads {
                    let fx = fx.clone();
                    let container = container.clone();
                    let barrier = barrier.clone();
                    let first_err = first_err.clone();
                    let tallies = tallies.clone();
                    s.spawn(move || {
                        let mut rng = Rng::new(op_seed ^ mix(t as u64));
                        let mut tally = Tally::default();
                        barrier.wait();
                        let res = (|| -> Result<(), String> {
                            // first access from many threads at once: pack slot, entry/value stores
                            if t % 2 == 0 {
                                directory_probe(&container, fx.n_entries, &mut rng, &mut tally)?;
                            }
                            if t % 8 == 1 {
                                // sweep: touch every content without waiting for its data, so that clusters are evicted
                                // from the 40-slot cache while their decoding is still queued or running
                                let start = rng.usize_below(fx.addrs.len());
                                for j in 0..fx.addrs.len() {
                                    let i = (start + j) % fx.addrs.len();
                                    if fx.expected[i].len() < 1_000_000 {
                                        continue;
                                    }
                                    if let Some(jbk::reader::MayMissPack::FOUND(Some(r))) = container.get_bytes(fx.addrs[i]).map_err(|e| format!("get_bytes: {e}"))? {
                                        let n = fx.expected[i].len().min(16);
                                        let s = r.get_slice(jbk::Offset::from(0u64), n).map_err(|e| format!("sweep get_slice: {e}"))?;
                                        if s.as_ref() != &fx.expected[i][..n] {
                                            return Err(format!("sweep: head of content {i} differs"));
                                        }
                                        tally.inc("op.sweep_touch");
                                    }
                                }
                            }
                            let mut held: Vec<(ByteRegion, usize)> = vec![];
                            for _ in 0..ops {
                                // a few hot contents shared by all threads, else spread over all clusters
                                let i = if rng.chance(1, 3) { (rng.below(4) * 7) as usize % fx.addrs.len() } else { rng.usize_below(fx.addrs.len()) };
                                let region = match container.get_bytes(fx.addrs[i]).map_err(|e| format!("get_bytes: {e}"))? {
                                    Some(jbk::reader::MayMissPack::FOUND(Some(r))) => r,
                                    _ => return Err(format!("content {i} not found")),
                                };
                                let nops = 1 + rng.usize_below(3);
                                reader_ops(&region, &fx.expected[i], &mut rng, nops, &mut tally)?;
                                // keep some regions alive while their clusters get evicted, read them again later
                                if rng.chance(1, 4) {
                                    held.push((region, i));
                                }
                                if held.len() > 6 || (rng.chance(1, 5) && !held.is_empty()) {
                                    let (r, j) = held.swap_remove(rng.usize_below(held.len()));
                                    reader_ops(&r, &fx.expected[j], &mut rng, 1, &mut tally)?;
                                    tally.inc("reads_on_regions_held_across_evictions");
                                }
                            }
                            Ok(())
                        })();
                        if let Err(e) = res {
                            let mut f = first_err.lock().unwrap();
                            if f.is_none() {
                                *f = Some(e);
                            }
                        }
                        tallies.lock().unwrap().merge(&tally);
                    });
                }
            });
        }
    });
    monitor_collect(&mut out);
    out.obs.merge(&tallies.lock().unwrap());
    if let Err(p) = r {
        out.violate_panic("C07", "stress", &mode, &p);
    }
    if let Some(e) = first_err.lock().unwrap().clone() {
        out.violate(json!({"kind": "bytes", "mode": mode, "profile": profile()}), format!("C07 [{mode}]: a concurrent read did not return the stored bytes: {e}"), json!({}));
    }
    let blocked = out.obs.n.get("hook.reads_that_blocked").cloned().unwrap_or(0);
    let during = out.obs.n.get("hook.slices_during_decode").cloned().unwrap_or(0);
    out.nontrivial = blocked > 0 || during > 0;
    let mut fp = Fp::new();
    fp.s(&mode).u(op_seed).u(ju64(desc, "delay_seed"));
    out.fp = fp.hex();
    out
}

fn directory_probe(c: &jbk::reader::Container, n: u32, rng: &mut Rng, tally: &mut Tally) -> Result<(), String> {
    let index = c.get_index_for_name("files").map_err(|e| e.to_string())?.ok_or("index missing")?;
    let store = index.get_store(c.get_entry_storage()).map_err(|e| e.to_string())?;
    let builder = jbk::reader::builder::AnyBuilder::new(store, c.get_value_storage().as_ref()).map_err(|e| e.to_string())?;
    for _ in 0..5 {
        let i = rng.below(n as u64) as u32;
        let e = index.get_entry(&builder, jbk::EntryIdx::from(i)).map_err(|e| e.to_string())?.ok_or("entry missing")?;
        let re = read_entry(&e, &[], &["cid".to_string(), "path".to_string()])?;
        // store is unsorted: entry i carries cid i and path "k{i:07}"
        if re.vals.get("cid") != Some(&Val::U(i as u64)) || re.vals.get("path") != Some(&Val::A(format!("k{i:07}").into_bytes())) {
            return Err(format!("entry {i} read concurrently has other values: {:?}", re.vals));
        }
        tally.inc("entries_read_concurrently");
    }
    Ok(())
}

fn run_pure(desc: &Value, threads: usize, ops: usize, op_seed: u64, first_err: &Arc<Mutex<Option<String>>>, tallies: &Arc<Mutex<Tally>>, out: &mut CaseOut) {
    // several buffers decoded at once (more than the 8 pool threads), each read by a group of threads
    let mut rng = Rng::new(op_seed);
    let n_bufs = 12usize;
    let threads = threads.min(24);
    monitor_reset(ju64(desc, "delay_seed"), ju64(desc, "delay_level"));
    let datas: Vec<Arc<Vec<u8>>> = (0..n_bufs).map(|i| Arc::new(gen_bytes(op_seed, i as u64, *rng.pick(&[0usize, 1, 4095, 4096, 4097, 12_288, 300_000, 1_000_000]), Ent::High))).collect();
    let regions: Vec<ByteRegion> = datas
        .iter()
        .enumerate()
        .map(|(i, d)| jbk::verif::region_from_decoder(ChunkyDecoder::new(d.clone(), op_seed ^ i as u64, *rng.pick(&[1usize, 100, 4096, 70_000]), true), d.len()))
        .collect();
    let barrier = Arc::new(Barrier::new(threads));
    std::thread::scope(|s| {
        for t in 0..threads {
            let regions = &regions;
            let datas = &datas;
            let barrier = barrier.clone();
            let first_err = first_err.clone();
            let tallies = tallies.clone();
            s.spawn(move || {
                let mut rng = Rng::new(op_seed ^ mix(1000 + t as u64));
                let mut tally = Tally::default();
                barrier.wait();
                for _ in 0..ops {
                    let i = rng.usize_below(regions.len());
                    if let Err(e) = reader_ops(&regions[i], &datas[i], &mut rng, 2, &mut tally) {
                        let mut f = first_err.lock().unwrap();
                        if f.is_none() {
                            *f = Some(format!("buffer {i}: {e}"));
                        }
                        break;
                    }
                }
                tallies.lock().unwrap().merge(&tally);
            });
        }
    });
    out.obs.add("pure_buffers", n_bufs as u64);
}

#[allow(dead_code)]
fn _container_is_shareable() {
    fn assert_send_sync<T: Send + Sync>() {}
    assert_send_sync::<jbk::reader::Container>();
    assert_send_sync::<ByteRegion>();
}
