//! Panic capture, JSON-line protocol, scratch directories.

use serde_json::{json, Value};
use std::cell::RefCell;
use std::io::Write;
use std::panic::{catch_unwind, AssertUnwindSafe};
use std::path::{Path, PathBuf};
use std::sync::Mutex;

#[derive(Clone, Debug)]
pub struct PanicInfo {
    pub file: String,
    pub line: u32,
    pub msg: String,
    pub thread: String,
}

impl PanicInfo {
    /// `site` = source file without line number (sources move), relative to the repo if possible.
    pub fn site(&self) -> String {
        let f = &self.file;
        if let Some(p) = f.find("/repo/") {
            f[p + 6..].to_string()
        } else if let Some(p) = f.find("/registry/src/") {
            // third party crate: keep crate dir + file
            let rest = &f[p + 14..];
            match rest.find('/') {
                Some(q) => rest[q + 1..].to_string(),
                None => rest.to_string(),
            }
        } else {
            f.clone()
        }
    }
    pub fn norm_msg(&self) -> String {
        normalize_msg(&self.msg)
    }
    pub fn to_json(&self) -> Value {
        json!({"site": self.site(), "line": self.line, "msg": truncate(&self.msg, 300), "thread": self.thread})
    }
    /// true when the panic originates in the harness itself (a harness bug, never a verdict)
    pub fn in_harness(&self) -> bool {
        self.file.contains("/verif/harness/") || self.file.starts_with("src/")
    }
}

pub fn truncate(s: &str, n: usize) -> String {
    if s.len() <= n {
        s.to_string()
    } else {
        let mut end = n;
        while !s.is_char_boundary(end) {
            end -= 1;
        }
        format!("{}…", &s[..end])
    }
}

/// Replace every run of digits by `N` and hex-looking blobs so that messages are stable signatures.
pub fn normalize_msg(msg: &str) -> String {
    let mut out = String::with_capacity(msg.len());
    let mut in_digits = false;
    for c in msg.chars() {
        if c.is_ascii_digit() {
            if !in_digits {
                out.push('N');
                in_digits = true;
            }
        } else {
            in_digits = false;
            out.push(c);
        }
    }
    truncate(&out, 160)
}

thread_local! {
    static LAST: RefCell<Option<PanicInfo>> = const { RefCell::new(None) };
}
static ALL: Mutex<Vec<PanicInfo>> = Mutex::new(Vec::new());

pub fn install_panic_hook() {
    std::panic::set_hook(Box::new(|info| {
        let (file, line) = info
            .location()
            .map(|l| (l.file().to_string(), l.line()))
            .unwrap_or_default();
        let msg = if let Some(s) = info.payload().downcast_ref::<&str>() {
            s.to_string()
        } else if let Some(s) = info.payload().downcast_ref::<String>() {
            s.clone()
        } else {
            "<non-string panic payload>".to_string()
        };
        let thread = std::thread::current().name().unwrap_or("?").to_string();
        let pi = PanicInfo {
            file,
            line,
            msg,
            thread,
        };
        // one line on stderr so that a dying process leaves a trace for the driver
        let _ = writeln!(
            std::io::stderr(),
            "PANIC site={} line={} thread={} msg={}",
            pi.site(),
            pi.line,
            pi.thread,
            truncate(&pi.msg.replace('\n', " "), 300)
        );
        LAST.with(|l| *l.borrow_mut() = Some(pi.clone()));
        if let Ok(mut all) = ALL.lock() {
            if all.len() < 64 {
                all.push(pi);
            }
        }
    }));
}

/// Panics recorded in any thread since the last call.
pub fn drain_panics() -> Vec<PanicInfo> {
    ALL.lock().map(|mut a| std::mem::take(&mut *a)).unwrap_or_default()
}

/// Run `f`, turning a panic of this thread into `Err(PanicInfo)`.
/// The *first* panic recorded in any thread during the call is reported (a panic in a
/// worker thread usually resurfaces as a secondary `unwrap` panic in the caller).
pub fn catch<T>(f: impl FnOnce() -> T) -> Result<T, PanicInfo> {
    let _ = drain_panics();
    LAST.with(|l| *l.borrow_mut() = None);
    match catch_unwind(AssertUnwindSafe(f)) {
        Ok(v) => Ok(v),
        Err(_) => {
            let all = drain_panics();
            if let Some(first) = all.into_iter().next() {
                return Err(first);
            }
            Err(LAST.with(|l| l.borrow_mut().take()).unwrap_or(PanicInfo {
                file: "?".into(),
                line: 0,
                msg: "panic without hook info".into(),
                thread: "?".into(),
            }))
        }
    }
}

pub fn emit(v: &Value) {
    let out = std::io::stdout();
    let mut l = out.lock();
    let _ = serde_json::to_writer(&mut l, v);
    let _ = l.write_all(b"\n");
    let _ = l.flush();
}

pub struct Scratch {
    pub dir: PathBuf,
}

impl Scratch {
    pub fn new(base: &Path, tag: &str) -> Self {
        static N: std::sync::atomic::AtomicU64 = std::sync::atomic::AtomicU64::new(0);
        let n = N.fetch_add(1, std::sync::atomic::Ordering::Relaxed);
        let dir = base.join(format!("{}-{}-{}", tag, std::process::id(), n));
        std::fs::create_dir_all(&dir).expect("create scratch dir");
        Scratch { dir }
    }
    pub fn path(&self, name: &str) -> PathBuf {
        self.dir.join(name)
    }
    pub fn utf8(&self, name: &str) -> camino::Utf8PathBuf {
        camino::Utf8PathBuf::from_path_buf(self.dir.join(name)).expect("utf8 path")
    }
}

impl Drop for Scratch {
    fn drop(&mut self) {
        let _ = std::fs::remove_dir_all(&self.dir);
    }
}

pub fn hex(b: &[u8]) -> String {
    let mut s = String::with_capacity(b.len() * 2);
    for x in b {
        s.push_str(&format!("{:02x}", x));
    }
    s
}

pub fn unhex(s: &str) -> Vec<u8> {
    (0..s.len() / 2)
        .map(|i| u8::from_str_radix(&s[2 * i..2 * i + 2], 16).unwrap_or(0))
        .collect()
}

/// Short description of a byte string for reports.
pub fn brief(b: &[u8]) -> String {
    if b.len() <= 24 {
        hex(b)
    } else {
        format!("{}..(len {})", hex(&b[..24]), b.len())
    }
}
