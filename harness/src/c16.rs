//! C16 — the compression hint decides how a content is stored (independent decoder's view of the
//! file); identical contents added through the deduplicating adder are stored once.

use crate::c01::{self, Pkg};
use crate::cont::{decode_files, list_files};
use crate::content::*;
use crate::indep::PackBody;
use crate::proto::*;
use crate::rng::Rng;
use crate::util::{self, Scratch};
use serde_json::{json, Value};
use std::collections::HashMap;
use std::sync::Arc;

pub fn count(tier: Tier) -> u64 {
    tier.pick(360, 8000)
}

pub fn gen(seed: u64, tier: Tier, k: u64) -> Value {
    let mut rng = Rng::keyed(seed, "C16", k);
    if (tier == Tier::Quick && k == 5) || (tier == Tier::Thorough && k % 300 == 5) {
        // a long history through the deduplicating adder: 70000 distinct contents, then repeats of early and late ones
        let n = 70_000usize;
        let mut items: Vec<Item> = (0..n).map(|_| Item { len: 8, ent: Ent::High, hint: Hint::Yes, src: Src::Mem, dup_of: None, cat_of: None }).collect();
        for j in [0usize, 1, 100, 4095, 65_535, 65_536, n - 1] {
            items.push(Item { len: 8, ent: Ent::High, hint: *rng.pick(&Hint::ALL), src: Src::Mem, dup_of: Some(j), cat_of: None });
        }
        let case = ContentCase { seed: rng.next(), comp: Comp::Zstd(1), cached: true, items };
        let mut v = case.to_json();
        v["pkg"] = json!("bare");
        return v;
    }
    if (tier == Tier::Quick && (k == 7 || k == 8)) || (tier == Tier::Thorough && (k % 300 == 7 || k % 300 == 8)) {
        // the first content of a raw cluster that is not the first cluster written comes from a file: 4095 tiny contents from
        // memory fill the first raw cluster (k odd: a small compressed cluster is written before the raw one instead)
        let mut items: Vec<Item> = vec![];
        if k % 2 == 1 {
            for _ in 0..4095 {
                items.push(Item { len: 2, ent: Ent::High, hint: Hint::No, src: Src::Mem, dup_of: None, cat_of: None });
            }
        } else {
            for _ in 0..4095 {
                items.push(Item { len: 3, ent: Ent::Low4, hint: Hint::Yes, src: Src::Mem, dup_of: None, cat_of: None });
            }
        }
        items.push(Item { len: 5000, ent: Ent::High, hint: Hint::No, src: if k % 2 == 1 { Src::File } else { Src::Range { before: 11, after: 5 } }, dup_of: None, cat_of: None });
        items.push(Item { len: 300, ent: Ent::High, hint: Hint::No, src: Src::Mem, dup_of: None, cat_of: None });
        let case = ContentCase { seed: rng.next(), comp: if k % 2 == 1 { Comp::None } else { Comp::Zstd(1) }, cached: false, items };
        let mut v = case.to_json();
        v["pkg"] = json!("bare");
        return v;
    }
    if (tier == Tier::Quick && k == 9) || (tier == Tier::Thorough && k % 300 == 9) {
        // more than 4095 contents kept raw in a COMPRESSING pack: the raw cluster is closed by the blob-count limit, not at the end
        let mut items: Vec<Item> = vec![];
        for i in 0..4100usize {
            items.push(Item { len: 1 + i % 3, ent: Ent::High, hint: Hint::No, src: Src::Mem, dup_of: None, cat_of: None });
        }
        for _ in 0..3 {
            items.push(Item { len: 600, ent: Ent::Low4, hint: Hint::Yes, src: Src::Mem, dup_of: None, cat_of: None });
        }
        let case = ContentCase { seed: rng.next(), comp: *rng.pick(&[Comp::Zstd(1), Comp::Lz4(1)]), cached: false, items };
        let mut v = case.to_json();
        v["pkg"] = json!("bare");
        return v;
    }
    if (tier == Tier::Quick && k == 10) || (tier == Tier::Thorough && k % 300 == 10) {
        // compressed clusters closed faster than they are compressed: a slow compressor, one compression worker (the case runs
        // restricted to one CPU) and contents that each close the cluster of the previous one; the queue in front of the
        // workers fills up and the creator has to wait. The hint still decides.
        let n = if tier == Tier::Quick { 9 } else { 14 };
        let items: Vec<Item> = (0..n).map(|_| Item { len: 2 * 1024 * 1024 + 1, ent: Ent::High, hint: Hint::Yes, src: Src::Mem, dup_of: None, cat_of: None }).collect();
        let case = ContentCase { seed: rng.next(), comp: Comp::Zstd(19), cached: false, items };
        let mut v = case.to_json();
        v["pkg"] = json!("bare");
        v["cpus"] = json!(1);
        return v;
    }
    let comp = match k % 5 {
        0 => Comp::None,
        1 => Comp::Lz4(*rng.pick(&[0u32, 3, 9, 15])),
        2 => Comp::Lzma(*rng.pick(&[0u32, 1])),
        _ => Comp::Zstd(*rng.pick(&[-7i32, 1, 5, 19])),
    };
    let comp = if tier == Tier::Thorough { if k % 5 == 0 { Comp::None } else { Comp::pick(&mut rng, tier) } } else { comp };
    let cached = k % 2 == 1;
    let mut items: Vec<Item> = vec![];
    let n = rng.range(2, 30) as usize;
    for i in 0..n {
        let len = match rng.below(6) {
            0 => 0,
            1 => rng.range(1, 300) as usize,
            2 => *rng.pick(&[4095usize, 4096, 4097]),
            3 => rng.range(10_000, 200_000) as usize,
            _ => rng.range(300, 9000) as usize,
        };
        let mut it = Item { len, ent: *rng.pick(&Ent::ALL), hint: *rng.pick(&Hint::ALL), src: match rng.below(6) {
            0 => Src::File,
            // a sub-range of a bigger file (what precedes and follows the range must not end up in the pack)
            1 => Src::Range { before: *rng.pick(&[1usize, 512, 4096, 5000]), after: *rng.pick(&[0usize, 9, 4096]) },
            _ => Src::Mem,
        }, dup_of: None, cat_of: None };
        // duplicates at distance, possibly with another hint
        if i >= 2 && rng.chance(1, 4) {
            let j = rng.usize_below(i);
            if items[j].dup_of.is_none() {
                it.len = items[j].len;
                it.ent = items[j].ent;
                it.dup_of = Some(j);
            }
        }
        items.push(it);
    }
    if k % 9 == 4 {
        // force a cluster close on the compressed side between two uses of the same content
        // (both sides of the 4 MiB switch of the deduplicating adder: below it hashes a buffered copy, above it streams)
        let big_len = if k % 18 == 4 { 3 * 1024 * 1024 } else { 4 * 1024 * 1024 + 4096 };
        let big = Item { len: big_len, ent: Ent::Low4, hint: Hint::Yes, src: if k % 4 == 0 { Src::File } else { Src::Mem }, dup_of: None, cat_of: None };
        items.insert(1, big.clone());
        let mut b2 = big.clone();
        b2.ent = Ent::Mid6;
        items.push(b2);
        let mut again = big;
        for it in items.iter_mut() {
            if let Some(d) = it.dup_of.as_mut() {
                if *d >= 1 {
                    *d += 1;
                }
            }
        }
        // the big content once more, later in the history (it sits at position 1 after the insertion above)
        again.dup_of = Some(1);
        again.hint = Hint::Detect;
        items.push(again);
        // a content whose bytes are the big one followed by its successor in the history: it is NOT a duplicate of anything
        if items[2].cat_of.is_none() {
            let l = items[1].len + items[2].len;
            items.push(Item { len: l, ent: Ent::Low4, hint: Hint::Yes, src: Src::Mem, dup_of: None, cat_of: Some((1, 2)) });
        }
    }
    if k % 4 == 1 && items.len() >= 3 {
        // concatenations of two consecutive earlier contents: distinct byte strings, distinct addresses
        for _ in 0..2 {
            let a = rng.below(items.len() as u64 - 1) as usize;
            if items[a].cat_of.is_some() || items[a + 1].cat_of.is_some() || items[a].len + items[a + 1].len == 0 {
                continue;
            }
            let l = items[a].len + items[a + 1].len;
            items.push(Item { len: l, ent: items[a].ent, hint: *rng.pick(&Hint::ALL), src: Src::Mem, dup_of: None, cat_of: Some((a, a + 1)) });
        }
    }
    let case = ContentCase { seed: rng.next(), comp, cached, items };
    let mut v = case.to_json();
    v["pkg"] = json!(if k % 7 == 3 { "onefile" } else { "bare" });
    v
}

pub fn run(desc: &Value, ctx: &Ctx) -> CaseOut {
    let mut out = CaseOut::new();
    let case = ContentCase::from_json(desc);
    let pkg = Pkg::parse(jstr(desc, "pkg"));
    c01::fingerprint(&case, pkg, &mut out);
    let scratch = Scratch::new(&ctx.work, "c16");
    // a case may ask to be created on a restricted set of CPUs (the creator sizes its worker pool and queue from it)
    let cpus = desc.get("cpus").and_then(|v| v.as_u64()).unwrap_or(0) as usize;
    let mut all: libc::cpu_set_t = unsafe { std::mem::zeroed() };
    if cpus > 0 {
        unsafe {
            libc::sched_getaffinity(0, std::mem::size_of::<libc::cpu_set_t>(), &mut all);
        }
        if !crate::c08::set_affinity(cpus) {
            out.inconclusive("cannot restrict the CPU affinity");
            return out;
        }
        out.obs.inc("cases_created_on_restricted_cpus");
    }
    let created = util::catch(|| c01::create(&case, pkg, &scratch.dir, Arc::new(())));
    if cpus > 0 {
        crate::c08::reset_affinity(&all);
    }
    let created = match created {
        Ok(Ok(c)) => c,
        Ok(Err(e)) => {
            out.inconclusive(format!("creation failed (C01's concern): {e}"));
            return out;
        }
        Err(p) => {
            out.inconclusive(format!("creation panicked (C01's concern): {} {}", p.site(), p.msg));
            return out;
        }
    };
    let files: Vec<_> = list_files(&scratch.dir).into_iter().collect();
    let bytes_of_file: HashMap<_, _> = files.iter().filter_map(|p| std::fs::read(p).ok().map(|b| (p.clone(), b))).collect();
    let views = decode_files(&files);
    let mut pack = None;
    for (p, v) in &views {
        for pk in &v.packs {
            if let PackBody::Content { .. } = pk.body {
                pack = Some((p.clone(), pk.clone()));
            }
        }
    }
    let (path, pack) = match pack {
        Some(x) => x,
        None => {
            out.inconclusive("independent decoder found no content pack (C14's concern)");
            return out;
        }
    };
    let fbytes = &bytes_of_file[&path];
    let (clusters, contents) = match &pack.body {
        PackBody::Content { clusters, contents } => (clusters, contents),
        _ => unreachable!(),
    };
    let mut first_use: HashMap<Vec<u8>, usize> = HashMap::new();
    let mut mixed = (false, false);
    for (i, it) in case.items.iter().enumerate() {
        let addr = created.addrs[i];
        let cid = addr.content_id.into_u32() as usize;
        let rec = match contents.get(cid) {
            Some(r) => r,
            None => {
                out.violate(json!({"kind": "address", "profile": profile()}), format!("C16: item {i}: address {cid} beyond the content table ({})", contents.len()), json!({}));
                continue;
            }
        };
        let bytes = case.bytes_of(i);
        let is_repeat = case.cached && first_use.contains_key(&bytes);
        if is_repeat {
            // dedup clause: identical content shares the address of its first insertion
            let j = first_use[&bytes];
            out.obs.inc("dedup_repeats");
            if created.addrs[j] != addr {
                out.violate(
                    json!({"kind": "dedup-address", "profile": profile()}),
                    format!("C16: item {i} has the same bytes as item {j} but the deduplicating adder returned address {cid} instead of {}", created.addrs[j].content_id.into_u32()),
                    json!({"len": it.len}),
                );
            }
            continue;
        }
        first_use.entry(bytes.clone()).or_insert(i);
        // hint clause, applied to the first insertion of a byte string
        let must_raw = it.hint == Hint::No || case.comp == Comp::None;
        let must_comp = it.hint == Hint::Yes && case.comp != Comp::None;
        if must_raw {
            mixed.0 = true;
            out.obs.inc("checked.must_be_raw");
            if rec.compression != 0 {
                out.violate(
                    json!({"kind": "hint-no-compressed", "profile": profile()}),
                    format!("C16: item {i} (hint {}, pack compression {}) lies in cluster {} whose compression byte is {}", it.hint.as_str(), case.comp.name(), rec.cluster, rec.compression),
                    json!({"len": it.len}),
                );
            } else if let Some(off) = rec.raw_offset {
                let off = off as usize;
                if fbytes.get(off..off + it.len) != Some(&bytes[..]) {
                    out.violate(
                        json!({"kind": "raw-not-verbatim", "profile": profile()}),
                        format!("C16: item {i}: the file bytes at offset {off} (+{}) are not the content verbatim", it.len),
                        json!({}),
                    );
                } else {
                    out.obs.inc("verbatim_checks");
                }
            }
        } else if must_comp {
            mixed.1 = true;
            out.obs.inc("checked.must_be_compressed");
            if rec.compression != case.comp.code() {
                out.violate(
                    json!({"kind": "hint-yes-wrong-compression", "profile": profile()}),
                    format!("C16: item {i} (hint yes, pack compression {}) lies in cluster {} whose compression byte is {} (expected {})", case.comp.name(), rec.cluster, rec.compression, case.comp.code()),
                    json!({"len": it.len}),
                );
            } else if clusters.get(rec.cluster as usize).map(|c| c.plain.is_none()).unwrap_or(true) {
                out.violate(json!({"kind": "not-decodable", "profile": profile()}), format!("C16: item {i}: cluster {} is not decodable with {}", rec.cluster, case.comp.name()), json!({}));
            } else if pack.content_bytes(cid).as_deref() != Some(&bytes[..]) {
                // "stored in a cluster compressed with the pack's algorithm": what the independent decoder gets out of that
                // cluster at this blob's offsets is the content
                let got = pack.content_bytes(cid);
                out.violate(
                    json!({"kind": "compressed-not-stored", "profile": profile()}),
                    format!("C16: item {i} ({} bytes, hint yes): blob {} of compressed cluster {} decodes to {} instead of the content", it.len, rec.blob, rec.cluster, got.map(|g| format!("{} other bytes", g.len())).unwrap_or("nothing".into())),
                    json!({"len": it.len}),
                );
            } else {
                out.obs.inc("compressed_blob_checks");
            }
        } else {
            // Detect: recorded, not judged
            let e = shannon(&bytes[..bytes.len().min(4096)]);
            out.obs.inc(if rec.compression == 0 { "detect.stored_raw" } else { "detect.stored_compressed" });
            if !bytes.is_empty() && (rec.compression != 0) != (e <= 6.0) {
                out.obs.inc("detect.disagrees_with_6bit_rule");
            }
        }
    }
    // dedup clause on the count
    if case.cached {
        let expected = first_use.len();
        if contents.len() != expected {
            out.violate(
                json!({"kind": "dedup-count", "profile": profile()}),
                format!("C16: {} distinct byte strings were added through the deduplicating adder, the pack stores {} contents", expected, contents.len()),
                json!({}),
            );
        }
    }
    out.nontrivial = mixed.0 || mixed.1 || case.cached;
    if mixed.0 && mixed.1 {
        out.obs.inc("cases_mixing_raw_and_compressed");
    }
    out
}
