//! Reference corpus (C14 b): the list of corpus cases (shared by the generator, which is linked against the
//! pinned version of the library, and by the check, which reads the committed files with the current reader).

use crate::c01::Pkg;
use crate::cont::ContCase;
use crate::content::*;
use crate::dirs::*;
use crate::rng::Rng;

pub struct CorpusCase {
    pub name: String,
    pub case: ContCase,
    /// also produce `all.jbk` = tools::concat of the separate files (in this order of the produced files, rotated by `rot`)
    pub concat_rot: Option<usize>,
}

/// Values are restricted to what the pinned writer stores unaltered (see DESIGN.md section 6):
/// signed columns within one byte, no trailing constant property in a variant, no empty variant,
/// no incompressible content forced into a compressed cluster.
pub fn cases() -> Vec<CorpusCase> {
    let mut out = vec![];
    let mut rng = Rng::keyed(20261004, "corpus", 0);
    let comps = [Comp::None, Comp::Zstd(5), Comp::Lz4(3), Comp::Lzma(1)];
    let pkgs = [Pkg::OneFile, Pkg::TwoFiles, Pkg::NoConcat];
    let mut n = 0;
    for comp in comps {
        for pkg in pkgs {
            let shape = n % 4;
            n += 1;
            let mut items = vec![];
            for i in 0..(3 + shape * 2) {
                let (len, ent, hint) = match i % 5 {
                    0 => (300 + i * 11, Ent::Low4, Hint::Yes),
                    1 => (40, Ent::High, Hint::No),
                    2 => (0, Ent::Low4, Hint::Detect),
                    3 => (5000, Ent::Mid6, Hint::Detect),
                    _ => (4096, Ent::Zero, Hint::Yes),
                };
                items.push(Item { len, ent, hint, src: Src::Mem, dup_of: None, cat_of: None });
            }
            let n_items = items.len();
            let content = ContentCase { seed: rng.next(), comp, cached: false, items };
            let indexed = shape % 2 == 0;
            let files = StoreDef {
                n: n_items,
                common: vec![
                    PDef { name: "cid".into(), kind: PKind::UInt, col: Col::Seq },
                    PDef { name: "addr".into(), kind: PKind::Content, col: Col::Seq },
                    PDef { name: "path".into(), kind: PKind::Array { prefix: [0u8, 1, 4, 31][shape], store: 0 }, col: Col::Seq },
                ],
                variants: vec![],
                sort: if shape >= 2 { Some(vec!["path".into()]) } else { None },
                unique_keys: true,
            };
            let misc = StoreDef {
                n: 6 + shape,
                common: vec![
                    PDef { name: "u".into(), kind: PKind::UInt, col: Col::Width(1 + shape as u8 * 2) },
                    PDef { name: "s".into(), kind: PKind::SInt, col: Col::Small },
                    PDef { name: "a".into(), kind: PKind::Array { prefix: [2u8, 0, 31, 3][shape], store: 1 }, col: Col::Arr { max: 20, alpha: 4 } },
                    PDef { name: "k".into(), kind: PKind::UInt, col: Col::Const },
                    PDef { name: "r".into(), kind: PKind::RefTo, col: Col::RefPat([RefPat::Next, RefPat::Perm, RefPat::Self_, RefPat::AllToOne][shape]) },
                ],
                variants: vec![
                    VariantDef { name: "X".into(), props: vec![PDef { name: "x".into(), kind: PKind::Content, col: Col::Content { packs: 2, maxid: 300 } }] },
                    VariantDef { name: "Y".into(), props: vec![PDef { name: "y2".into(), kind: PKind::UInt, col: Col::Const }, PDef { name: "y".into(), kind: PKind::UInt, col: Col::Small }] },
                ],
                sort: None,
                unique_keys: false,
            };
            let mut indexes = vec![
                IndexDef { name: "files".into(), store: 0, offset: 0, count: n_items as u32 },
                IndexDef { name: "misc".into(), store: 1, offset: 0, count: misc.n as u32 },
                IndexDef { name: "misc_window".into(), store: 1, offset: 2, count: 3 },
            ];
            if shape == 3 {
                indexes.push(IndexDef { name: "empty".into(), store: 0, offset: n_items as u32, count: 0 });
            }
            let dir = DirCase { seed: rng.next(), vstores: vec![indexed, !indexed], stores: vec![files, misc], indexes, defer: 0, free: 0 };
            let extra = if shape == 1 && pkg != Pkg::OneFile {
                vec![ContentCase { seed: rng.next(), comp: Comp::None, cached: false, items: vec![Item { len: 77, ent: Ent::High, hint: Hint::No, src: Src::Mem, dup_of: None, cat_of: None }, Item { len: 900, ent: Ent::Low4, hint: Hint::Yes, src: Src::Mem, dup_of: None, cat_of: None }] }]
            } else {
                vec![]
            };
            out.push(CorpusCase {
                name: format!("{}-{}", comp.name(), pkg.as_str()),
                case: ContCase { content, dir, pkg, extra, id_gap: 0, first_id: 1 },
                concat_rot: if pkg == Pkg::OneFile { None } else { Some(n % 3) },
            });
        }
    }
    out
}
