//! C14 — written bytes follow the documented layout (independent decoder), and the decoder
//! recovers exactly the logical content written; reference corpus keeps reading the same.

use crate::c01::{self, Pkg};
use crate::cont::*;
use crate::content::*;
use crate::dirs::*;
use crate::indep::{self, PackBody};
use crate::proto::*;
use crate::rng::{Fp, Rng};
use crate::util::{self, Scratch};
use serde_json::{json, Value};
use std::sync::Arc;

pub fn count(tier: Tier) -> u64 {
    tier.pick(240, 9000)
}

/// Case kinds: bare content packs (C01's generator), bare directory packs (C02/C03/C15 generators),
/// whole containers in every packaging.
pub fn gen(seed: u64, tier: Tier, k: u64) -> Value {
    if (tier == Tier::Quick && k == 11) || (tier == Tier::Thorough && k % 500 == 11) {
        // a container of 256 packs or more, made with the low-level creators (pack counts, pack ids and the masked part of
        // the manifest's checksum beyond one byte)
        let mut rng = Rng::keyed(seed, "C14-many", k);
        let mut case = gen_small(&mut rng, tier, Pkg::NoConcat, 0, 3);
        for _ in 1..*rng.pick(&[256usize, 257, 300]) {
            let items = vec![Item { len: rng.range(1, 40) as usize, ent: Ent::High, hint: Hint::No, src: Src::Mem, dup_of: None, cat_of: None }];
            case.extra.push(ContentCase { seed: rng.next(), comp: Comp::None, cached: false, items });
        }
        return json!({"kind": "container", "how": if k % 2 == 1 { "loose" } else { "loose-concat" }, "case": case.to_json()});
    }
    match k % 6 {
        0 => json!({"kind": "content", "case": c01::gen(seed ^ 0x14, tier, k / 6)}),
        1 => json!({"kind": "dir", "case": crate::c02::gen(seed ^ 0x14, tier, k / 6)}),
        2 => json!({"kind": "dir", "case": crate::c03::gen(seed ^ 0x14, tier, k / 6)}),
        3 => json!({"kind": "dir", "case": crate::c15::gen(seed ^ 0x14, tier, k / 6)}),
        _ => {
            let mut rng = Rng::keyed(seed, "C14", k);
            let pkg = [Pkg::OneFile, Pkg::TwoFiles, Pkg::NoConcat][(k / 6 % 3) as usize];
            let n_extra = if rng.chance(1, 3) { rng.range(1, 2) as usize } else { 0 };
            // every fourth container is made with the low-level creators (loose files, or those joined by tools::concat):
            // there every free-data field is the caller's
            let how = match k / 6 % 8 {
                3 => "loose",
                7 => "loose-concat",
                _ => "basic",
            };
            let mut case = gen_small(&mut rng, tier, pkg, n_extra, 9);
            if n_extra > 0 && rng.chance(1, 2) {
                case.id_gap = *rng.pick(&[1u16, 5, 254]);
            }
            // extra packs next to the entry point, or in a sub-directory `packs/` (the recorded location is then a relative path)
            json!({"kind": "container", "how": how, "subdir": n_extra > 0 && k / 6 % 2 == 1, "case": case.to_json()})
        }
    }
}

fn report_problems(out: &mut CaseOut, what: &str, problems: &[String]) {
    for p in problems.iter().take(3) {
        // rule name = text before the first ':' after the pack designation, digits normalised
        out.violate(
            json!({"kind": "layout-rule", "rule": util::normalize_msg(p), "profile": profile()}),
            format!("C14: {what}: layout rule broken: {p}"),
            json!({}),
        );
    }
}

pub fn run(desc: &Value, ctx: &Ctx) -> CaseOut {
    let mut out = CaseOut::new();
    let kind = jstr(desc, "kind").to_string();
    let case = desc.get("case").cloned().unwrap_or(Value::Null);
    let scratch = Scratch::new(&ctx.work, "c14");
    out.obs.inc(&format!("cases.{kind}"));
    let r = util::catch(|| match kind.as_str() {
        "content" => {
            let cc = ContentCase::from_json(&case);
            let pkg = Pkg::parse(jstr(&case, "pkg"));
            c01::fingerprint(&cc, pkg, &mut out);
            match c01::create(&cc, pkg, &scratch.dir, Arc::new(())) {
                Err(e) => out.inconclusive(format!("creation failed (C01's concern): {e}")),
                Ok(created) => {
                    let files: Vec<_> = list_files(&scratch.dir).into_iter().collect();
                    let views = decode_files(&files);
                    let mut found = false;
                    for (p, v) in &views {
                        out.obs.inc("files_decoded");
                        out.obs.add("bytes_decoded", v.len);
                        report_problems(&mut out, &p.file_name().unwrap().to_string_lossy(), &v.problems);
                        for pack in &v.packs {
                            if let PackBody::Content { clusters, .. } = &pack.body {
                                found = true;
                                out.obs.add("clusters_decoded", clusters.len() as u64);
                                for c in clusters {
                                    out.obs.inc(&format!("clusters.comp{}", c.compression));
                                    out.obs.set("cluster_offset_sizes", format!("{}", c.offset_size));
                                }
                                for d in compare_content(&cc, &created.addrs, pack) {
                                    out.violate(json!({"kind": "decoded-content", "profile": profile()}), format!("C14: independent decoder: {d}"), json!({}));
                                }
                            }
                        }
                    }
                    if !found {
                        out.violate(json!({"kind": "no-content-pack", "profile": profile()}), "C14: the independent decoder found no content pack in the produced files", json!({"problems": views.iter().flat_map(|(_, v)| v.problems.clone()).collect::<Vec<_>>()}));
                    }
                }
            }
        }
        "dir" => {
            let dc = DirCase::from_json(&case);
            observe(&dc, &mut out);
            match create_mem(&dc) {
                Err(_) if jstr(&case, "expect") == "unrepresentable" => out.obs.inc("unrepresentable_inputs_refused(no file to decode)"),
                // the model itself says the directory does not fit the format (a tail beyond 65535 bytes …): a refusal is right
                Err(_) if representable(&dc, &(0..dc.stores.len()).map(|si| expand(&dc, si)).collect::<Vec<_>>()).0 != Repr::Yes => out.obs.inc("unrepresentable_inputs_refused(no file to decode)"),
                Err(e) => out.inconclusive(format!("creation failed (C02's concern): {e}")),
                Ok((inst, bytes)) => {
                    let v = indep::decode_file(&bytes);
                    out.obs.inc("files_decoded");
                    out.obs.add("bytes_decoded", v.len);
                    report_problems(&mut out, "directory pack", &v.problems);
                    // a store sorted on a deferred reference has no order the model can predict (C15/C03 judge it by
                    // self-consistency): only the layout rules are judged here
                    let predictable = jstr(&case, "mode") != "sort-on-ref";
                    for d in compare_directory(&dc, &inst.models, &v).into_iter().filter(|_| predictable) {
                        out.violate(json!({"kind": "decoded-directory", "profile": profile()}), format!("C14: independent decoder: {d}"), json!({}));
                        if out.viols.len() > 5 {
                            break;
                        }
                    }
                    if let Some(PackBody::Directory { stores, .. }) = v.directory_pack().map(|p| &p.body) {
                        out.obs.add("entries_decoded", stores.iter().map(|s| s.entries.len() as u64).sum());
                    }
                    if let Some(dp) = v.directory_pack() {
                        let want = pack_free(dc.free, "directory");
                        out.obs.inc("free_data_comparisons");
                        if dp.free != want {
                            out.violate(json!({"kind": "decoded-free-data", "profile": profile()}), format!("C14: independent decoder: directory header free data decodes to {} but {} was given", util::brief(&dp.free), util::brief(&want)), json!({}));
                        }
                    }
                }
            }
        }
        _ => {
            let cc = ContCase::from_json(&case);
            observe(&cc.dir, &mut out);
            observe_cont(&cc, &mut out);
            let mut fp = Fp::new();
            fp.s(&out.fp).s(cc.pkg.as_str()).s(cc.content.comp.name()).u(cc.extra.len() as u64);
            out.fp = fp.hex();
            out.nontrivial = true;
            out.obs.inc(&format!("containers.pkg.{}", cc.pkg.as_str()));
            let how = jstr(desc, "how").to_string();
            out.obs.inc(&format!("containers.made.{}", if how.is_empty() { "basic" } else { &how }));
            let made = match how.as_str() {
                "loose" => create_loose(&cc, &scratch.dir, &|_, f| f.to_string(), None),
                "loose-concat" => create_loose(&cc, &scratch.dir, &|_, f| f.to_string(), Some("all.jbk")),
                _ => create_container_ex(&cc, &scratch.dir, "c.jbk", &if jbool(desc, "subdir") { scratch.dir.join("packs") } else { scratch.dir.clone() }, Arc::new(())),
            };
            match made {
                Err(e) => out.inconclusive(format!("creation failed (C01/C02's concern): {e}")),
                Ok(created) => {
                    let views = decode_files(&created.files);
                    // the reader's own listing of each produced file (tools::open_pack -> ContainerPack) names the same packs,
                    // with the same sizes, as the independent decoder finds in it
                    for (p, v) in &views {
                        let listing = util::catch(|| -> Result<Vec<([u8; 16], u64)>, String> {
                            let cp = jubako::tools::open_pack(p).map_err(|e| format!("open_pack: {e}"))?;
                            let n = cp.pack_count().into_u16();
                            let mut l = vec![];
                            for i in 0..n {
                                let u = cp.get_pack_uuid(jubako::PackId::from(i));
                                let by_idx = cp.get_pack_reader_from_idx(jubako::PackId::from(i)).ok_or(format!("no reader for pack index {i}"))?;
                                let by_uuid = cp.get_pack_reader(&u).ok_or(format!("no reader for uuid {u}"))?;
                                // what the reader handed out opens as a pack with that uuid; its kind comes from the decoder
                                let kind = v.packs.iter().find(|pk| pk.hdr.uuid == *u.as_bytes()).map(|pk| pk.hdr.kind).unwrap_or(0);
                                let hdr = v.packs.iter().find(|pk| pk.hdr.uuid == *u.as_bytes()).map(|pk| pk.hdr.clone());
                                let open = |r: jubako::Reader| -> Result<(uuid::Uuid, u64), String> {
                                    use jubako::Pack as _;
                                    // (uuid, size, kind name, vendor id, version) as the opened pack reports them
                                    let (uu, size, k, vendor, version) = match kind {
                                        b'm' => { let p = jubako::reader::ManifestPack::new(r).map_err(|e| e.to_string())?; (p.uuid(), p.size().into_u64(), format!("{:?}", p.kind()), format!("{:?}", p.app_vendor_id()), p.version()) }
                                        b'd' => { let p = jubako::reader::DirectoryPack::new(r).map_err(|e| e.to_string())?; (p.uuid(), p.size().into_u64(), format!("{:?}", p.kind()), format!("{:?}", p.app_vendor_id()), p.version()) }
                                        b'c' => { let p = jubako::reader::ContentPack::new(r).map_err(|e| e.to_string())?; (p.uuid(), p.size().into_u64(), format!("{:?}", p.kind()), format!("{:?}", p.app_vendor_id()), p.version()) }
                                        _ => return Err(format!("pack index {i}: uuid {u} is not a pack the independent decoder found")),
                                    };
                                    let want_kind = match kind { b'm' => "Manifest", b'd' => "Directory", _ => "Content" };
                                    if k != want_kind {
                                        return Err(format!("pack {u}: kind() = {k}, the header says {want_kind}"));
                                    }
                                    if let Some(h) = &hdr {
                                        if version != (h.major, h.minor) {
                                            return Err(format!("pack {u}: version() = {version:?}, the header says {:?}", (h.major, h.minor)));
                                        }
                                        let want_vendor = format!("{:?}", crate::content::vendor());
                                        if vendor != want_vendor {
                                            return Err(format!("pack {u}: app_vendor_id() = {vendor}, {want_vendor} was given (header bytes {:?})", h.vendor));
                                        }
                                    }
                                    Ok((uu, size))
                                };
                                let a = open(by_idx)?;
                                let b = open(by_uuid)?;
                                if a != b || a.0 != u {
                                    return Err(format!("pack index {i}: listed uuid {u}, opened by index {:?}, by uuid {:?}", a, b));
                                }
                                l.push((*u.as_bytes(), a.1));
                            }
                            if cp.iter().count() != n as usize {
                                return Err(format!("iter() yields {} packs, pack_count() says {n}", cp.iter().count()));
                            }
                            l.sort();
                            Ok(l)
                        });
                        let mut want: Vec<([u8; 16], u64)> = v.packs.iter().map(|pk| (pk.hdr.uuid, pk.hdr.pack_size)).collect();
                        want.sort();
                        out.obs.inc("container_listings_compared");
                        match listing {
                            Ok(Ok(l)) if l == want => {}
                            Ok(Ok(l)) => out.violate(json!({"kind": "container-listing", "profile": profile()}), format!("C14: {}: the reader lists {} packs {:?}, the independent decoder finds {} {:?}", p.file_name().unwrap().to_string_lossy(), l.len(), l.iter().map(|x| x.1).collect::<Vec<_>>(), want.len(), want.iter().map(|x| x.1).collect::<Vec<_>>()), json!({})),
                            Ok(Err(e)) => out.violate(json!({"kind": "container-listing", "message": util::normalize_msg(&e), "profile": profile()}), format!("C14: {}: listing the packs of a freshly written file failed: {e}", p.file_name().unwrap().to_string_lossy()), json!({})),
                            Err(pn) => out.violate_panic("C14", "container-listing", &how, &pn),
                        }
                    }
                    // every location recorded in the manifest, taken relative to the entry point's directory, names a file
                    // that holds the pack with that uuid (an empty location = the pack is in the entry point file itself)
                    let entry_dir = created.path.parent().map(|p| p.to_path_buf()).unwrap_or_default();
                    for (_, v) in &views {
                        if let Some(PackBody::Manifest { infos }) = v.manifest_pack().map(|p| &p.body) {
                            for i in infos {
                                out.obs.inc(if i.location.is_empty() { "locations.empty" } else if i.location.contains('/') { "locations.with_directory" } else { "locations.file_name" });
                                let holder = if i.location.is_empty() { created.path.clone() } else { entry_dir.join(&i.location) };
                                let found = views.iter().any(|(p, hv)| {
                                    let same = std::fs::canonicalize(p).ok() == std::fs::canonicalize(&holder).ok();
                                    same && hv.packs.iter().any(|pk| pk.hdr.uuid == i.uuid)
                                });
                                // (packs joined into the entry point by tools::concat keep the location they were recorded with)
                                let inside = views.iter().any(|(p, hv)| *p == created.path && hv.packs.iter().any(|pk| pk.hdr.uuid == i.uuid));
                                if !found && !inside {
                                    out.violate(json!({"kind": "recorded-location", "profile": profile()}), format!("C14: the manifest records location {:?} for pack {} ({}): no produced file at that place holds it", i.location, i.id, uuid::Uuid::from_bytes(i.uuid)), json!({}));
                                }
                            }
                        }
                    }
                    for d in compare_free(&cc, created.loose, &views) {
                        out.violate(json!({"kind": "decoded-free-data", "profile": profile()}), format!("C14: independent decoder: {d}"), json!({}));
                    }
                    out.obs.inc("free_data_comparisons");
                    let mut dir_seen = false;
                    let mut content_seen = 0;
                    for (p, v) in &views {
                        out.obs.inc("files_decoded");
                        out.obs.add("bytes_decoded", v.len);
                        report_problems(&mut out, &p.file_name().unwrap().to_string_lossy(), &v.problems);
                        if v.directory_pack().is_some() {
                            dir_seen = true;
                            for d in compare_directory(&cc.dir, &created.inst.models, v) {
                                out.violate(json!({"kind": "decoded-directory", "profile": profile()}), format!("C14: independent decoder: {d}"), json!({}));
                            }
                        }
                        for pack in &v.packs {
                            if let PackBody::Content { .. } = &pack.body {
                                content_seen += 1;
                            }
                        }
                        if let Some(PackBody::Manifest { infos }) = v.manifest_pack().map(|p| &p.body) {
                            out.obs.inc("manifests_decoded");
                            if infos.len() != 2 + cc.extra.len() {
                                out.violate(json!({"kind": "manifest-packs", "profile": profile()}), format!("C14: manifest lists {} packs, {} were written", infos.len(), 2 + cc.extra.len()), json!({}));
                            }
                        }
                    }
                    // main content pack = the one whose pack id is 1: match by content comparison on the first content pack of the entry-point / .jbkc file
                    let mut matched_main = false;
                    for (_, v) in &views {
                        for pack in &v.packs {
                            if let PackBody::Content { contents, .. } = &pack.body {
                                if contents.len() == cc.content.expected_count() && compare_content(&cc.content, &created.addrs, pack).is_empty() {
                                    matched_main = true;
                                }
                            }
                        }
                    }
                    if !matched_main {
                        out.violate(json!({"kind": "decoded-content", "profile": profile()}), "C14: no decoded content pack holds exactly the contents written to the main pack", json!({}));
                    }
                    if !dir_seen {
                        out.violate(json!({"kind": "no-directory-pack", "profile": profile()}), "C14: no directory pack decoded from the produced files", json!({}));
                    }
                    if content_seen != 1 + cc.extra.len() {
                        out.violate(json!({"kind": "content-pack-count", "profile": profile()}), format!("C14: {content_seen} content packs decoded, {} written", 1 + cc.extra.len()), json!({}));
                    }
                }
            }
        }
    });
    if let Err(p) = r {
        if p.in_harness() {
            out.inconclusive(format!("harness panic {}:{} {}", p.file, p.line, p.msg));
        } else {
            out.inconclusive(format!("library panic (C01/C02's concern): {} {}", p.site(), p.msg));
        }
    }
    let mut fp = Fp::new();
    fp.s(&out.fp).s(&kind);
    out.fp = fp.hex();
    out
}

// ------------------------------------------------------------------------------------------------
// part (b): the committed reference corpus, written by the pinned version, read with the current reader

pub fn corpus_dir() -> std::path::PathBuf {
    std::path::PathBuf::from(std::env::var("JBK_CORPUS").unwrap_or_else(|_| "/verif/corpus".into()))
}

pub fn corpus_entries() -> Vec<String> {
    let mut v: Vec<String> = std::fs::read_dir(corpus_dir())
        .map(|rd| rd.filter_map(|e| e.ok()).filter(|e| e.path().join("expected.json").exists()).map(|e| e.file_name().to_string_lossy().into_owned()).collect())
        .unwrap_or_default();
    v.sort();
    v
}

pub fn count_b(_tier: Tier) -> u64 {
    corpus_entries().len() as u64
}

pub fn gen_b(_seed: u64, _tier: Tier, k: u64) -> Value {
    json!({"corpus_entry": corpus_entries().get(k as usize).cloned().unwrap_or_default()})
}

pub fn run_b(desc: &Value, ctx: &Ctx) -> CaseOut {
    let mut out = CaseOut::new();
    let name = jstr(desc, "corpus_entry").to_string();
    let dir = corpus_dir().join(&name);
    let mut fp = Fp::new();
    fp.s("corpus").s(&name);
    out.fp = fp.hex();
    out.nontrivial = true;
    let case: ContCase = match std::fs::read_to_string(dir.join("case.json")).ok().and_then(|t| serde_json::from_str::<Value>(&t).ok()) {
        Some(v) => ContCase::from_json(&v),
        None => {
            out.inconclusive(format!("corpus entry {name}: case.json unreadable"));
            return out;
        }
    };
    let expected: crate::dump::Dump = match std::fs::read_to_string(dir.join("expected.json")).ok().and_then(|t| serde_json::from_str(&t).ok()) {
        Some(v) => v,
        None => {
            out.inconclusive(format!("corpus entry {name}: expected.json unreadable"));
            return out;
        }
    };
    // work on a copy: the reader must never modify the corpus, and locations are relative to the directory
    let scratch = Scratch::new(&ctx.work, "corpus");
    for f in list_files(&dir) {
        let _ = std::fs::copy(&f, scratch.dir.join(f.file_name().unwrap()));
    }
    let mut plan = crate::dump::plan_for(&case, None);
    plan.checks = true;
    for entry in ["c.jbk", "all.jbk"] {
        let p = scratch.dir.join(entry);
        if !p.exists() {
            continue;
        }
        out.obs.inc("corpus_files_read");
        let got = crate::dump::dump_container(&p, &plan);
        out.obs.add("items_compared", expected.len() as u64);
        let diffs = crate::dump::diff(&expected, &got, |k| expected.contains_key(k));
        for d in diffs.iter().take(3) {
            let item = d.split(':').next().unwrap_or("").split('/').next().unwrap_or("").to_string();
            let outcome = if d.contains(": err:") { "err" } else if d.contains(": panic:") { "panic" } else { "differs" };
            out.violate(
                json!({"kind": "corpus", "entry": name, "file": entry, "item": item, "outcome": outcome, "profile": profile()}),
                format!("C14: reference file {name}/{entry} (written by the pinned version) no longer reads to its committed content: {d}"),
                json!({"differences": diffs.len()}),
            );
        }
        match got.get("check/container").map(|s| s.as_str()) {
            Some("ok:true") => out.obs.inc("corpus_checks_true"),
            other => out.violate(
                json!({"kind": "corpus-check", "entry": name, "file": entry, "profile": profile()}),
                format!("C14: reference file {name}/{entry}: Container::check() = {other:?}"),
                json!({}),
            ),
        }
    }
    out
}
