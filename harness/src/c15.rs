//! C15 — references between entries resolve to the referenced entry's final position;
//! the handle returned by `add_entry` reports that same final position.

use crate::c02::{run_dir_case, VerifyOpts};
use crate::dirs::*;
use crate::proto::*;
use crate::rng::Rng;
use serde_json::{json, Value};

pub fn count(tier: Tier) -> u64 {
    tier.pick(240, 1200)
}

pub fn gen(seed: u64, tier: Tier, k: u64) -> Value {
    let mut rng = Rng::keyed(seed, "C15", k);
    // sizes: reference-column width boundaries and sizes where rayon really splits the work
    let n: usize = if k < 8 {
        [2usize, 3, 255, 256, 257, 1000, 5000, 12_000][k as usize]
    } else if tier == Tier::Thorough && k % 23 == 0 {
        *rng.pick(&[30_000usize, 65_535, 65_536, 65_537])
    } else {
        match rng.below(6) {
            0 => rng.range(2, 10) as usize,
            1 => *rng.pick(&[255usize, 256, 257]),
            2 => rng.range(2000, 9000) as usize,
            _ => rng.range(10, 600) as usize,
        }
    };
    let pats = [RefPat::Next, RefPat::Prev, RefPat::Self_, RefPat::Perm, RefPat::AllToOne, RefPat::Random];
    let pat = pats[(k % 6) as usize];
    let indexed = rng.chance(1, 2);
    let mut common = vec![
        PDef { name: "id".into(), kind: PKind::UInt, col: Col::Seq },
        PDef { name: "ref".into(), kind: PKind::RefTo, col: Col::RefPat(pat) },
    ];
    if rng.chance(1, 3) {
        common.push(PDef { name: "ref2".into(), kind: PKind::RefTo, col: Col::RefPat(*rng.pick(&pats)) });
    }
    // sort key distinct from the reference property
    let sort = match rng.below(4) {
        0 => None,
        1 => {
            common.push(PDef { name: "key".into(), kind: PKind::UInt, col: Col::Full });
            Some(vec!["key".to_string()])
        }
        2 => {
            common.push(PDef { name: "key".into(), kind: PKind::SInt, col: Col::Full });
            Some(vec!["key".to_string()])
        }
        _ => {
            let prefix = *rng.pick(&[0u8, 1, 2, 4, 31]);
            common.push(PDef { name: "key".into(), kind: PKind::Array { prefix, store: 0 }, col: Col::Arr { max: 10, alpha: 4 } });
            Some(vec!["key".to_string()])
        }
    };
    let variants = if rng.chance(1, 4) {
        vec![
            VariantDef { name: "A".into(), props: vec![PDef { name: "va".into(), kind: PKind::RefTo, col: Col::RefPat(RefPat::Random) }] },
            VariantDef { name: "B".into(), props: vec![PDef { name: "vb".into(), kind: PKind::UInt, col: Col::Small }] },
        ]
    } else {
        vec![]
    };
    let unique = sort.is_some();
    let store = StoreDef { n, common, variants, sort, unique_keys: unique };
    let o = if rng.chance(1, 3) { rng.below(n as u64) as u32 } else { 0 };
    let indexes = vec![
        IndexDef { name: "all".into(), store: 0, offset: 0, count: n as u32 },
        IndexDef { name: "win".into(), store: 0, offset: o, count: n as u32 - o },
    ];
    let case = DirCase { seed: rng.next(), vstores: vec![indexed], stores: vec![store], indexes };
    let mut v = case.to_json();
    v["via"] = json!(if rng.chance(1, 2) { "file" } else { "mem" });
    v
}

pub fn run(desc: &Value, ctx: &Ctx) -> CaseOut {
    let mut out = run_dir_case(desc, ctx, &VerifyOpts { prop: "C15", handles: true });
    let case = DirCase::from_json(desc);
    // non-trivial: at least one reference column and >= 2 entries
    let has_ref = case.stores.iter().any(|s| s.common.iter().any(|p| p.kind == PKind::RefTo));
    out.nontrivial = has_ref && case.stores.iter().any(|s| s.n >= 2);
    for s in &case.stores {
        for p in &s.common {
            if let Col::RefPat(pat) = &p.col {
                out.obs.set("ref_patterns", format!("{pat:?}"));
            }
        }
        out.obs.set("sorted", format!("{}", s.sort.is_some()));
        if s.n >= 2000 {
            out.obs.inc("stores_over_2000_entries");
        }
    }
    out
}
