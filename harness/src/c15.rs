//! C15 — references between entries resolve to the referenced entry's final position;
//! the handle returned by `add_entry` reports that same final position.

use crate::c02::{run_dir_case, VerifyOpts};
use crate::dirs::*;
use crate::proto::*;
use crate::rng::Rng;
use serde_json::{json, Value};

pub fn count(tier: Tier) -> u64 {
    tier.pick(240, 5000)
}

/// A store sorted ON a reference: key = (position of the parent, rank among siblings). The sort key depends on
/// the positions the sort produces, so the writer has to iterate until a fixed point; the model cannot predict
/// "the" order, the oracle is self-consistency (see `run_sort_on_ref`).
pub fn gen_sort_on_ref(seed: u64, k: u64) -> Value {
    let mut rng = Rng::keyed(seed, "C15-tree", k);
    let b = *rng.pick(&[2u8, 3, 4]);
    let n = match b {
        2 => *rng.pick(&[15usize, 31, 63, 127]),
        3 => *rng.pick(&[13usize, 40, 121, 364]),
        _ => *rng.pick(&[21usize, 85, 341]),
    };
    let store = StoreDef {
        n,
        common: vec![
            PDef { name: "id".into(), kind: PKind::UInt, col: Col::Seq },
            PDef { name: "parent".into(), kind: PKind::RefTo, col: Col::Tree(b) },
            PDef { name: "rank".into(), kind: PKind::UInt, col: Col::Tree(b) },
        ],
        variants: vec![],
        sort: Some(vec!["parent".into(), "rank".into()]),
        unique_keys: false,
    };
    let case = DirCase { seed: rng.next(), vstores: vec![], stores: vec![store], indexes: vec![IndexDef { name: "all".into(), store: 0, offset: 0, count: n as u32 }], defer: 0, free: 0 };
    let mut v = case.to_json();
    v["via"] = json!("mem");
    v["mode"] = json!("sort-on-ref");
    v
}

/// Two stores: a sorted one whose order reverses the insertion order (every entry moves), and a small one whose entries
/// refer to entries of the first (its first, its last, others): references across stores resolve to final positions too.
pub fn gen_cross_store(seed: u64, tier: Tier, k: u64) -> Value {
    let mut rng = Rng::keyed(seed, "C15-cross", k);
    let n_a = *rng.pick(&[2usize, 257, 300, 2_000, tier.pick(9_000, 70_001)]);
    let a = StoreDef {
        n: n_a,
        common: vec![PDef { name: "key".into(), kind: PKind::UInt, col: Col::RevSeq }, PDef { name: "id".into(), kind: PKind::UInt, col: Col::Seq }],
        variants: vec![],
        sort: Some(vec!["key".into()]),
        unique_keys: true,
    };
    let n_b = rng.range(1, 6) as usize;
    let b = StoreDef {
        n: n_b,
        common: vec![PDef { name: "id".into(), kind: PKind::UInt, col: Col::Seq }, PDef { name: "to_a".into(), kind: PKind::RefTo, col: Col::RefOther(0) }],
        variants: vec![],
        sort: None,
        unique_keys: false,
    };
    // the referencing store is added after (usual) or before the store it refers to
    let (stores, ia, ib) = if rng.chance(2, 3) { (vec![a, b], 0usize, 1usize) } else { (vec![b, a], 1, 0) };
    let mut stores = stores;
    for p in stores[ib].common.iter_mut() {
        if let Col::RefOther(t) = &mut p.col {
            *t = ia;
        }
    }
    let indexes = vec![IndexDef { name: "a".into(), store: ia, offset: 0, count: n_a as u32 }, IndexDef { name: "b".into(), store: ib, offset: 0, count: n_b as u32 }];
    let case = DirCase { seed: rng.next(), vstores: vec![], stores, indexes, defer: 0, free: 0 };
    let mut v = case.to_json();
    v["via"] = json!(if rng.chance(1, 2) { "file" } else { "mem" });
    v
}

pub fn gen(seed: u64, tier: Tier, k: u64) -> Value {
    if k % 12 == 9 {
        return gen_sort_on_ref(seed, k);
    }
    if k % 12 == 5 {
        return gen_cross_store(seed, tier, k);
    }
    let mut rng = Rng::keyed(seed, "C15", k);
    // sizes: reference-column width boundaries and sizes where rayon really splits the work
    let n: usize = if k < 8 {
        [2usize, 3, 255, 256, 257, 1000, 5000, 12_000][k as usize]
    } else if tier == Tier::Thorough && k % 23 == 0 {
        *rng.pick(&[30_000usize, 65_535, 65_536, 65_537])
    } else {
        match rng.below(6) {
            0 => rng.range(2, 10) as usize,
            1 => *rng.pick(&[255usize, 256, 257]),
            2 => rng.range(2000, 9000) as usize,
            _ => rng.range(10, 600) as usize,
        }
    };
    let pats = [RefPat::Next, RefPat::Prev, RefPat::Self_, RefPat::Perm, RefPat::AllToOne, RefPat::Random];
    let pat = pats[(k % 6) as usize];
    let indexed = rng.chance(1, 2);
    let mut common = vec![
        PDef { name: "id".into(), kind: PKind::UInt, col: Col::Seq },
        PDef { name: "ref".into(), kind: PKind::RefTo, col: Col::RefPat(pat) },
    ];
    if rng.chance(1, 3) {
        common.push(PDef { name: "ref2".into(), kind: PKind::RefTo, col: Col::RefPat(*rng.pick(&pats)) });
    }
    if rng.chance(1, 2) {
        // the same kind of reference in a signed column, through a closure word
        common.push(PDef { name: "sref".into(), kind: PKind::RefToS, col: Col::RefPat(*rng.pick(&pats)) });
    }
    // sort key distinct from the reference property
    let sort = match rng.below(4) {
        0 => None,
        1 => {
            common.push(PDef { name: "key".into(), kind: PKind::UInt, col: Col::Full });
            Some(vec!["key".to_string()])
        }
        2 => {
            common.push(PDef { name: "key".into(), kind: PKind::SInt, col: Col::Full });
            Some(vec!["key".to_string()])
        }
        _ => {
            let prefix = *rng.pick(&[0u8, 1, 2, 4, 31]);
            common.push(PDef { name: "key".into(), kind: PKind::Array { prefix, store: 0 }, col: Col::Arr { max: 10, alpha: 4 } });
            Some(vec!["key".to_string()])
        }
    };
    let variants = if rng.chance(1, 4) {
        vec![
            VariantDef { name: "A".into(), props: vec![PDef { name: "va".into(), kind: PKind::RefTo, col: Col::RefPat(RefPat::Random) }] },
            // a reference in a variant that is not the first one declared, too
            VariantDef { name: "B".into(), props: vec![PDef { name: "vb".into(), kind: PKind::UInt, col: Col::Small }, PDef { name: "vc".into(), kind: PKind::RefTo, col: Col::RefPat(RefPat::Random) }] },
        ]
    } else {
        vec![]
    };
    let unique = sort.is_some();
    let store = StoreDef { n, common, variants, sort, unique_keys: unique };
    let o = if rng.chance(1, 3) { rng.below(n as u64) as u32 } else { 0 };
    let indexes = vec![
        IndexDef { name: "all".into(), store: 0, offset: 0, count: n as u32 },
        IndexDef { name: "win".into(), store: 0, offset: o, count: n as u32 - o },
    ];
    // integers handed over as immediate values, deferred words, or a per-entry mix of both
    let defer = *rng.pick(&[0u8, 0, 1, 1, 2]);
    // free data of the indexes (and of the directory pack when it is created bare): zero, or arbitrary bytes
    let free = if rng.chance(1, 2) { rng.next() | 1 } else { 0 };
    let case = DirCase { seed: rng.next(), vstores: vec![indexed], stores: vec![store], indexes, defer, free };
    let mut v = case.to_json();
    v["via"] = json!(if rng.chance(1, 2) { "file" } else { "mem" });
    v
}

pub fn run_sort_on_ref(desc: &Value, prop: &'static str) -> CaseOut {
    use jubako::reader::Range as _;
    let mut out = CaseOut::new();
    let case = DirCase::from_json(desc);
    observe(&case, &mut out);
    out.obs.inc("cases.sort_on_reference");
    let n = case.stores[0].n;
    let r = crate::util::catch(|| -> Result<(), String> {
        let (inst, bytes) = create_mem(&case).map_err(|e| format!("creation: {e}"))?;
        let pack = crate::c02::open_dir_mem(bytes)?;
        let index = pack.get_index_from_name("all").map_err(|e| e.to_string())?.ok_or("index missing")?;
        let es = pack.create_entry_storage();
        let vs = pack.create_value_storage();
        let builder = jubako::reader::builder::AnyBuilder::new(index.get_store(&es).map_err(|e| e.to_string())?, vs.as_ref()).map_err(|e| e.to_string())?;
        let names = vec!["id".to_string(), "parent".to_string(), "rank".to_string()];
        let mut rows: Vec<(u64, u64, u64)> = vec![];
        for i in 0..n as u32 {
            let e = index.get_entry(&builder, jubako::EntryIdx::from(i)).map_err(|e| e.to_string())?.ok_or("entry missing")?;
            let re = read_entry(&e, &[], &names)?;
            let g = |k: &str| match re.vals.get(k) {
                Some(Val::U(v)) => Ok(*v),
                other => Err(format!("property {k} = {other:?}")),
            };
            rows.push((g("id")?, g("parent")?, g("rank")?));
        }
        // every id exactly once
        let mut pos_of = vec![usize::MAX; n];
        for (p, (id, _, _)) in rows.iter().enumerate() {
            if *id as usize >= n || pos_of[*id as usize] != usize::MAX {
                return Err(format!("VIOLATION id {id} read twice or out of range"));
            }
            pos_of[*id as usize] = p;
        }
        let tree = tree_dfs(n, match &case.stores[0].common[1].col {
            Col::Tree(b) => *b as usize,
            _ => 2,
        });
        for (p, (id, parent, rank)) in rows.iter().enumerate() {
            let (pe, r) = tree[*id as usize];
            if *rank != r as u64 {
                return Err(format!("VIOLATION entry id {id}: rank {rank} read, {r} written"));
            }
            if *parent != pos_of[pe] as u64 {
                return Err(format!("VIOLATION entry id {id} (read at {p}) stores reference {parent} but the referenced entry (id {pe}) is read back at position {}", pos_of[pe]));
            }
            let h = inst.handles[0][*id as usize].get().into_u32() as usize;
            if h != p {
                return Err(format!("VIOLATION handle of entry id {id} reports position {h}, the entry is read back at {p}"));
            }
        }
        for w in rows.windows(2) {
            if (w[0].1, w[0].2) > (w[1].1, w[1].2) {
                return Err(format!("VIOLATION store sorted on (parent, rank) holds {:?} before {:?}", (w[0].1, w[0].2), (w[1].1, w[1].2)));
            }
        }
        Ok(())
    });
    match r {
        Ok(Ok(())) => {
            out.obs.add("references_compared", n as u64);
            out.obs.add("handles_compared", n as u64);
        }
        Ok(Err(e)) => {
            if let Some(w) = e.strip_prefix("VIOLATION ") {
                out.violate(json!({"kind": "sort-on-reference", "profile": profile()}), format!("{prop}: {w}"), json!({}));
            } else {
                out.violate(json!({"kind": "sort-on-reference-error", "message": crate::util::normalize_msg(&e), "profile": profile()}), format!("{prop}: store sorted on a reference: {e}"), json!({}));
            }
        }
        Err(p) => out.violate_panic(prop, "sort-on-reference", "tree", &p),
    }
    out.nontrivial = true;
    out
}

pub fn run(desc: &Value, ctx: &Ctx) -> CaseOut {
    if jstr(desc, "mode") == "sort-on-ref" {
        return run_sort_on_ref(desc, "C15");
    }
    let mut out = run_dir_case(desc, ctx, &VerifyOpts { prop: "C15", handles: true });
    let case = DirCase::from_json(desc);
    // non-trivial: at least one reference column and >= 2 entries
    let has_ref = case.stores.iter().any(|s| s.common.iter().any(|p| matches!(p.kind, PKind::RefTo | PKind::RefToS)));
    if case.stores.iter().any(|s| s.common.iter().any(|p| matches!(p.col, Col::RefOther(_)))) {
        out.obs.inc("cases_with_references_across_stores");
    }
    out.nontrivial = has_ref && case.stores.iter().any(|s| s.n >= 2);
    for s in &case.stores {
        for p in &s.common {
            if let Col::RefPat(pat) = &p.col {
                out.obs.set("ref_patterns", format!("{pat:?}"));
            }
        }
        out.obs.set("sorted", format!("{}", s.sort.is_some()));
        if s.n >= 2000 {
            out.obs.inc("stores_over_2000_entries");
        }
    }
    out
}
