//! C08 — the created container does not depend on how compression workers are scheduled.
//! Perturbation through a delaying `Progress` implementation and the CPU affinity (worker count);
//! offline checker over the recorded event log; read-back + independent decoder.

use crate::c01::{self, Pkg};
use crate::content::*;
use crate::indep::{self, PackBody};
use crate::proto::*;
use crate::rng::{mix, Fp, Rng};
use crate::util::{self, Scratch};
use jubako as jbk;
use serde_json::{json, Value};
use std::sync::atomic::{AtomicU64, Ordering};
use std::sync::{Arc, Mutex};

pub fn n_sequences(tier: Tier) -> u64 {
    tier.pick(5, 20)
}
pub fn worker_counts(tier: Tier) -> Vec<usize> {
    match tier {
        Tier::Quick => vec![1, 2, 4, 15],
        Tier::Thorough => (1..=15).collect(),
    }
}
pub fn n_delay_seeds(tier: Tier) -> u64 {
    tier.pick(4, 8)
}
pub fn count(tier: Tier) -> u64 {
    n_sequences(tier) * worker_counts(tier).len() as u64 * n_delay_seeds(tier)
}

const PROFILES: [&str; 4] = ["uniform", "one-slow-worker", "slow-writer", "slow-workers-fast-main"];

pub fn gen(seed: u64, tier: Tier, k: u64) -> Value {
    let wc = worker_counts(tier);
    let nd = n_delay_seeds(tier);
    let seq = k / (wc.len() as u64 * nd);
    let rest = k % (wc.len() as u64 * nd);
    let workers = wc[(rest / nd) as usize];
    let dseed = rest % nd;
    // the sequence depends only on (seed, seq)
    let mut rng = Rng::keyed(seed, "C08-seq", seq);
    let comp = match seq % 3 {
        0 => Comp::Zstd(1),
        1 => Comp::Lz4(0),
        _ => Comp::Zstd(-5),
    };
    let mut items: Vec<Item> = vec![];
    let blocks = tier.pick(10, 24) + (seq % 4) as usize * 2;
    for b in 0..blocks {
        match rng.below(8) {
            0 | 1 => {
                // 4095 one-byte items close a cluster through the blob-count limit (compressed or raw)
                let hint = if rng.chance(3, 4) { Hint::Yes } else { Hint::No };
                for _ in 0..4095 {
                    items.push(Item { len: 1 + (b % 3), ent: Ent::Low4, hint, src: Src::Mem, dup_of: None, cat_of: None });
                }
            }
            2 | 3 => {
                // two contents of 2.1 MiB close a compressed cluster through the size limit; several in a row fill the queue
                for _ in 0..rng.range(2, 6) {
                    items.push(Item { len: 2_200_000 + rng.below(1000) as usize, ent: Ent::Low4, hint: Hint::Yes, src: Src::Mem, dup_of: None, cat_of: None });
                }
            }
            4 => {
                // interleaved raw contents (go straight to the writer thread)
                for _ in 0..rng.range(1, 30) {
                    items.push(Item { len: rng.range(0, 5000) as usize, ent: Ent::High, hint: Hint::No, src: Src::Mem, dup_of: None, cat_of: None });
                }
            }
            7 => {
                // a run of raw clusters only (4095 tiny uncompressed items each): with a slow writer thread the raw clusters
                // pile up while no compressed cluster is in flight
                for _ in 0..rng.range(3, 9) {
                    for _ in 0..4095 {
                        items.push(Item { len: 1 + (b % 2), ent: Ent::High, hint: Hint::No, src: Src::Mem, dup_of: None, cat_of: None });
                    }
                }
            }
            5 => {
                // raw and compressed contents from memory and from files in the same clusters (file-backed sources are
                // copied by the writer thread from the file itself, memory-backed ones from the buffer handed over)
                for _ in 0..rng.range(4, 40) {
                    let src = match rng.below(4) {
                        0 | 1 => Src::Mem,
                        2 => Src::File,
                        _ => Src::Range { before: *rng.pick(&[1usize, 4096, 5000]), after: *rng.pick(&[0usize, 9]) },
                    };
                    let hint = if rng.chance(2, 3) { Hint::No } else { *rng.pick(&[Hint::Yes, Hint::Detect]) };
                    items.push(Item { len: *rng.pick(&[0usize, 1, 300, 4096, 9000, 70_000, 300_000]), ent: *rng.pick(&[Ent::High, Ent::Text]), hint, src, dup_of: None, cat_of: None });
                }
            }
            _ => {
                // one content of a cluster or more (it gets a cluster of its own), then a duplicate of an earlier content
                let src = if rng.chance(1, 2) { Src::Mem } else { Src::File };
                items.push(Item { len: 4 * 1024 * 1024 + rng.below(3) as usize * 4096, ent: Ent::Low4, hint: *rng.pick(&[Hint::Yes, Hint::Yes, Hint::No, Hint::Detect]), src, dup_of: None, cat_of: None });
                if !items.is_empty() {
                    let j = rng.usize_below(items.len());
                    if items[j].dup_of.is_none() && items[j].cat_of.is_none() {
                        let mut it = items[j].clone();
                        it.dup_of = Some(j);
                        items.push(it);
                    }
                }
            }
        }
    }
    // one content far larger than a cluster (17 MiB: more than the whole compression queue of one or two workers may hold)
    if seq % 5 == 4 {
        let at = rng.usize_below(items.len().max(1));
        items.insert(at, Item { len: 17 * 1024 * 1024 + 77, ent: Ent::Low4, hint: Hint::Yes, src: Src::Mem, dup_of: None, cat_of: None });
        for it in items.iter_mut() {
            if let Some(d) = it.dup_of.as_mut() {
                if *d >= at {
                    *d += 1;
                }
            }
        }
    }
    // some sequences end on a compressed cluster holding one incompressible content just below a byte-width boundary (its
    // stored size is larger than its plain size and crosses the boundary)
    if seq % 5 == 1 {
        items.push(Item { len: 4 * 1024 * 1024 + 1, ent: Ent::Low4, hint: Hint::Yes, src: Src::Mem, dup_of: None, cat_of: None });
        items.push(Item { len: *rng.pick(&[250usize, 253, 65_530, 65_533]), ent: Ent::High, hint: Hint::Yes, src: Src::Mem, dup_of: None, cat_of: None });
    }
    // some sequences end on clusters that are still open at finalize and hold nothing but empty contents
    if seq % 4 >= 2 {
        for _ in 0..rng.range(1, 4) {
            items.push(Item { len: 0, ent: Ent::Zero, hint: if seq % 4 == 2 { Hint::No } else { Hint::Yes }, src: Src::Mem, dup_of: None, cat_of: None });
        }
    }
    // every third sequence goes through the deduplicating adder (it hashes, buffers or rewinds the source before handing it over)
    let case = ContentCase { seed: mix(seed ^ seq), comp, cached: seq % 3 == 1, items };
    json!({"seq": seq, "workers": workers, "delay_seed": dseed, "profile": PROFILES[((seq + dseed) % 4) as usize], "content": case.to_json()})
}

#[derive(Clone, Debug)]
struct Ev {
    seq: u64,
    thread: String,
    cb: &'static str,
    cluster: u32,
    compressed: bool,
}

struct Perturb {
    counter: AtomicU64,
    log: Mutex<Vec<Ev>>,
    seed: u64,
    profile: String,
}

impl Perturb {
    fn hit(&self, cb: &'static str, cluster: u32, compressed: bool) {
        let seq = self.counter.fetch_add(1, Ordering::SeqCst);
        let thread = std::thread::current().name().unwrap_or("main").to_string();
        self.log.lock().unwrap().push(Ev { seq, thread: thread.clone(), cb, cluster, compressed });
        // seeded, heavy tailed delay per (callback, cluster id)
        let h = mix(self.seed ^ mix(crate::rng::hash_str(cb) ^ cluster as u64));
        let base_us = match h % 16 {
            0 => 20_000,
            1 | 2 => 5_000,
            3..=6 => 800,
            7..=10 => 100,
            _ => 0,
        };
        let us = match self.profile.as_str() {
            "one-slow-worker" => {
                if thread.ends_with(" 0") && cb == "handle_cluster" {
                    15_000 + base_us / 4
                } else {
                    base_us / 8
                }
            }
            "slow-writer" => {
                if thread == "Cluster writer" {
                    3_000 + base_us / 2
                } else {
                    base_us / 10
                }
            }
            "slow-workers-fast-main" => {
                if thread.starts_with("ClusterComp") {
                    8_000 + base_us
                } else {
                    0
                }
            }
            _ => base_us,
        };
        if us > 0 {
            std::thread::sleep(std::time::Duration::from_micros(us));
        } else if h & 0x100 != 0 {
            std::thread::yield_now();
        }
    }
}

impl jbk::creator::Progress for Perturb {
    fn new_cluster(&self, cluster_idx: u32, compressed: bool) {
        self.hit("new_cluster", cluster_idx, compressed)
    }
    fn handle_cluster(&self, cluster_idx: u32, compressed: bool) {
        self.hit("handle_cluster", cluster_idx, compressed)
    }
    fn handle_cluster_written(&self, cluster_idx: u32) {
        self.hit("written", cluster_idx, false)
    }
    fn content_added(&self, _size: jbk::Size) {}
}

pub(crate) fn set_affinity(n: usize) -> bool {
    unsafe {
        let mut all: libc::cpu_set_t = std::mem::zeroed();
        if libc::sched_getaffinity(0, std::mem::size_of::<libc::cpu_set_t>(), &mut all) != 0 {
            return false;
        }
        let mut set: libc::cpu_set_t = std::mem::zeroed();
        let mut taken = 0;
        for cpu in 0..libc::CPU_SETSIZE as usize {
            if libc::CPU_ISSET(cpu, &all) {
                libc::CPU_SET(cpu, &mut set);
                taken += 1;
                if taken == n {
                    break;
                }
            }
        }
        libc::sched_setaffinity(0, std::mem::size_of::<libc::cpu_set_t>(), &set) == 0 && taken == n
    }
}

pub(crate) fn reset_affinity(all: &libc::cpu_set_t) {
    unsafe {
        libc::sched_setaffinity(0, std::mem::size_of::<libc::cpu_set_t>(), all);
    }
}

pub fn run(desc: &Value, ctx: &Ctx) -> CaseOut {
    let mut out = CaseOut::new();
    let case = ContentCase::from_json(desc.get("content").unwrap());
    let workers_cpus = ju64(desc, "workers") as usize + 1; // the creator spawns max(cpus, 2) - 1 workers
    let profile_name = jstr(desc, "profile").to_string();
    let scratch = Scratch::new(&ctx.work, "c08");
    let mut all: libc::cpu_set_t = unsafe { std::mem::zeroed() };
    unsafe {
        libc::sched_getaffinity(0, std::mem::size_of::<libc::cpu_set_t>(), &mut all);
    }
    let want_workers = ju64(desc, "workers") as usize;
    let cpus = if want_workers == 1 { 1 } else { workers_cpus };
    if !set_affinity(cpus) {
        out.inconclusive("cannot restrict the CPU affinity");
        return out;
    }
    let seen_par = std::thread::available_parallelism().map(|n| n.get()).unwrap_or(0);
    let perturb = Arc::new(Perturb { counter: AtomicU64::new(0), log: Mutex::new(vec![]), seed: ju64(desc, "delay_seed") ^ case.seed, profile: profile_name.clone() });
    let created = util::catch(|| c01::create(&case, Pkg::Bare, &scratch.dir, perturb.clone()));
    reset_affinity(&all);
    let effective_workers = std::cmp::max(seen_par, 2) - 1;
    out.obs.set("worker_counts", format!("{effective_workers}"));
    out.obs.set("delay_profiles", profile_name.clone());
    let class = format!("{}/workers{}", case.comp.name(), effective_workers);
    let created = match created {
        Err(p) => {
            out.violate_panic("C08", "create", &class, &p);
            return out;
        }
        Ok(Err(e)) => {
            out.violate(json!({"kind": "create-error", "message": util::normalize_msg(&e), "profile": profile()}), format!("C08: creation failed under schedule perturbation: {e}"), json!({}));
            return out;
        }
        Ok(Ok(c)) => c,
    };
    // ---- independent decoder: cluster table <-> tails, layout rules
    let bytes = std::fs::read(&created.path).unwrap_or_default();
    let view = indep::decode_file(&bytes);
    for p in view.problems.iter().take(2) {
        out.violate(json!({"kind": "layout-rule", "rule": util::normalize_msg(p), "profile": profile()}), format!("C08: independent decoder: {p}"), json!({}));
    }
    let (clusters, _contents) = match view.content_pack().map(|p| &p.body) {
        Some(PackBody::Content { clusters, contents }) => (clusters.clone(), contents.clone()),
        _ => {
            out.violate(json!({"kind": "no-content-pack", "profile": profile()}), "C08: the produced file holds no decodable content pack", json!({}));
            return out;
        }
    };
    // ---- offline checker over the Progress event log
    let log = perturb.log.lock().unwrap().clone();
    let n_clusters = clusters.len();
    let mut new_at: Vec<Vec<&Ev>> = vec![vec![]; n_clusters + 1];
    let mut handled_at: Vec<Vec<&Ev>> = vec![vec![]; n_clusters + 1];
    let mut written_at: Vec<Vec<&Ev>> = vec![vec![]; n_clusters + 1];
    for e in &log {
        let slot = (e.cluster as usize).min(n_clusters);
        match e.cb {
            "new_cluster" => new_at[slot].push(e),
            "handle_cluster" => handled_at[slot].push(e),
            _ => written_at[slot].push(e),
        }
    }
    let logbad = |out: &mut CaseOut, kind: &str, what: String| {
        out.violate(json!({"kind": kind, "profile": profile()}), format!("C08: event log: {what}"), json!({}));
    };
    if !new_at[n_clusters].is_empty() || !handled_at[n_clusters].is_empty() || !written_at[n_clusters].is_empty() {
        logbad(&mut out, "log-cluster-beyond-table", format!("events for cluster ids >= the written cluster count {n_clusters}"));
    }
    for id in 0..n_clusters {
        let (n, h, w) = (&new_at[id], &handled_at[id], &written_at[id]);
        if n.len() != 1 || h.len() != 1 || w.len() != 1 {
            logbad(&mut out, "log-exactly-once", format!("cluster {id}: opened {} times, handled {} times, written {} times", n.len(), h.len(), w.len()));
            break;
        }
        if !(n[0].seq < h[0].seq && h[0].seq < w[0].seq) {
            logbad(&mut out, "log-order", format!("cluster {id}: opened@{} handled@{} written@{}", n[0].seq, h[0].seq, w[0].seq));
            break;
        }
        if n[0].compressed != h[0].compressed {
            logbad(&mut out, "log-kind", format!("cluster {id}: opened as compressed={} handled as compressed={}", n[0].compressed, h[0].compressed));
            break;
        }
        let is_comp = clusters[id].compression != 0;
        if is_comp != n[0].compressed {
            logbad(&mut out, "cluster-kind", format!("cluster {id}: opened as compressed={} but its tail says compression {}", n[0].compressed, clusters[id].compression));
            break;
        }
    }
    // written order vs id order: inversions; file order must be the written order
    let mut written_order: Vec<(u64, usize)> = (0..n_clusters).filter_map(|id| written_at[id].first().map(|e| (e.seq, id))).collect();
    written_order.sort();
    let ids: Vec<usize> = written_order.iter().map(|x| x.1).collect();
    let mut inversions = 0u64;
    for i in 0..ids.len() {
        for j in i + 1..ids.len().min(i + 200) {
            if ids[i] > ids[j] {
                inversions += 1;
            }
        }
    }
    out.obs.add("inversions", inversions);
    out.obs.max("inversions_in_one_run", inversions);
    let mut by_pos: Vec<(u64, usize)> = clusters.iter().enumerate().map(|(i, c)| (c.data_start, i)).collect();
    by_pos.sort();
    let file_order: Vec<usize> = by_pos.iter().map(|x| x.1).collect();
    if file_order != ids && ids.len() == n_clusters {
        // handle_cluster_written is emitted after the write: the orders must agree
        out.obs.inc("file_order_differs_from_written_events");
    }
    // queue pressure: compressed clusters opened but not yet written
    let mut open = 0i64;
    let mut max_open = 0i64;
    for e in &log {
        if e.cb == "new_cluster" && e.compressed {
            open += 1;
        }
        if e.cb == "written" && (e.cluster as usize) < n_clusters && clusters[e.cluster as usize].compression != 0 {
            open -= 1;
        }
        max_open = max_open.max(open);
    }
    out.obs.max("compressed_clusters_in_flight", max_open as u64);
    let pressure = max_open as usize >= 2 * effective_workers + 2;
    if pressure {
        out.obs.inc("runs_with_queue_pressure");
    }
    let threads: std::collections::BTreeSet<String> = log.iter().filter(|e| e.cb == "handle_cluster" && e.compressed).map(|e| e.thread.clone()).collect();
    out.obs.max("distinct_compressor_threads_seen", threads.len() as u64);
    out.obs.add("clusters", n_clusters as u64);
    out.obs.add("events", log.len() as u64);
    // ---- read-back of every address + check
    let r = util::catch(|| {
        let opened = match c01::Opened::open(Pkg::Bare, &created.path) {
            Ok(o) => o,
            Err(e) => {
                out.violate(json!({"kind": "open-error", "message": util::normalize_msg(&e), "profile": profile()}), format!("C08: the pack does not open: {e}"), json!({}));
                return;
            }
        };
        for (i, a) in created.addrs.iter().enumerate() {
            match opened.get(*a).and_then(|r| r.ok_or_else(|| "no such content".to_string())).and_then(|r| c01::read_all(&r)) {
                Ok(got) => {
                    if got != case.bytes_of(i) {
                        out.violate(json!({"kind": "bytes", "profile": profile()}), format!("C08: item {i} resolves to other bytes under this schedule: {}", explain_mismatch(&case, i, &got)), json!({"item": i}));
                        break;
                    }
                }
                Err(e) => {
                    out.violate(json!({"kind": "read-error", "message": util::normalize_msg(&e), "profile": profile()}), format!("C08: item {i}: {e}"), json!({}));
                    break;
                }
            }
        }
        out.obs.add("addresses_read_back", created.addrs.len() as u64);
        if let c01::Opened::Bare(p) = &opened {
            use jbk::Pack as _;
            match p.check() {
                Ok(true) => {}
                other => out.violate(json!({"kind": "check", "profile": profile()}), format!("C08: pack check() = {:?}", other.map_err(|e| e.to_string())), json!({})),
            }
        }
    });
    if let Err(p) = r {
        out.violate_panic("C08", "read", &class, &p);
    }
    // logical fingerprint for the cross-schedule comparison done by the driver
    let mut lf = Fp::new();
    for i in 0..created.addrs.len().min(100_000) {
        lf.u(created.addrs[i].content_id.into_u32() as u64);
    }
    lf.u(n_clusters as u64);
    for c in &clusters {
        lf.u(c.compression as u64).u(c.blob_count as u64).u(c.data_size);
    }
    out.obs.set("logical", format!("seq{}:{}", ju64(desc, "seq"), lf.hex()));
    // non-trivial: reordering or queue pressure really happened
    out.nontrivial = inversions > 0 || pressure;
    let mut fp = Fp::new();
    for id in ids.iter().take(64) {
        fp.u(*id as u64);
    }
    fp.u(effective_workers as u64).u(ju64(desc, "seq"));
    out.fp = fp.hex();
    out
}
