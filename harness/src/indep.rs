//! Independent decoder of the Jubako on-disk layout.
//!
//! This file does NOT use the `jubako` crate. It decodes files from the byte layout only
//! (spec/*.rst cross-checked with the byte-level fixtures of the repository's tests; where the
//! two disagree the fixtures win: minor version 2, CRC-32C polynomial 0x1EDC6F41 non-reflected
//! with init 0xFFFFFFFF and no final xor stored big-endian, cluster tail with separate
//! `offsetSize` / `blobCount`, 32+4-byte locators, u64 value count in indexed value stores).
//! Third-party code used: blake3, and zstd / lz4 / xz2 purely as decompressors.
//!
//! Outputs: layout rule violations (`problems`), a structure map (file range -> pack, structure,
//! covered by the pack checksum or not), and the logical content (entries, indexes, contents).

use crate::dirs::Val;
use std::collections::BTreeMap;
use std::io::Read;

// ------------------------------------------------------------------------------------------------
// CRC-32C as used by the format (bitwise, MSB first)

pub fn crc32c_be(data: &[u8]) -> u32 {
    let mut crc: u32 = 0xFFFF_FFFF;
    for &b in data {
        crc ^= (b as u32) << 24;
        for _ in 0..8 {
            crc = if crc & 0x8000_0000 != 0 { (crc << 1) ^ 0x1EDC_6F41 } else { crc << 1 };
        }
    }
    crc
}

// faster table variant for big data blocks
fn crc_table() -> &'static [u32; 256] {
    static T: std::sync::OnceLock<[u32; 256]> = std::sync::OnceLock::new();
    T.get_or_init(|| {
        let mut t = [0u32; 256];
        for (i, e) in t.iter_mut().enumerate() {
            let mut c = (i as u32) << 24;
            for _ in 0..8 {
                c = if c & 0x8000_0000 != 0 { (c << 1) ^ 0x1EDC_6F41 } else { c << 1 };
            }
            *e = c;
        }
        t
    })
}

pub fn crc32c_fast(data: &[u8]) -> u32 {
    let t = crc_table();
    let mut crc: u32 = 0xFFFF_FFFF;
    for &b in data {
        crc = (crc << 8) ^ t[(((crc >> 24) as u8) ^ b) as usize];
    }
    crc
}

// ------------------------------------------------------------------------------------------------

#[derive(Clone, Debug)]
pub struct Span {
    pub start: u64,
    pub end: u64,
    /// index into `FileView::packs`, or usize::MAX for container-level structures
    pub pack: usize,
    pub name: String,
    /// inside the range hashed by the owning pack's blake3 (and not masked)
    pub covered: bool,
    /// part of the pack's check block (kind + hash + crc)
    pub check_block: bool,
}

#[derive(Clone, Debug, Default)]
pub struct PackHdr {
    pub kind: u8,
    pub vendor: [u8; 4],
    pub major: u8,
    pub minor: u8,
    pub uuid: [u8; 16],
    pub flags: u8,
    pub pack_size: u64,
    pub check_info_pos: u64,
}

#[derive(Clone, Debug)]
pub struct ContentRec {
    pub cluster: u32,
    pub blob: u16,
    pub compression: u8,
    /// absolute file offset of the stored bytes when the cluster is raw
    pub raw_offset: Option<u64>,
    pub size: u64,
}

#[derive(Clone, Debug, Default)]
pub struct ClusterRec {
    pub compression: u8,
    pub offset_size: u8,
    pub blob_count: u16,
    pub raw_size: u64,
    pub data_size: u64,
    pub data_start: u64,
    pub tail_start: u64,
    pub offsets: Vec<u64>,
    /// decoded plain data (None if decoding failed)
    pub plain: Option<Vec<u8>>,
}

#[derive(Clone, Debug)]
pub struct IndexRec {
    pub name: String,
    pub store: u32,
    pub count: u32,
    pub offset: u32,
    pub key: u8,
    pub free: [u8; 4],
}

#[derive(Clone, Debug)]
pub struct DecEntry {
    pub variant: Option<String>,
    pub vals: BTreeMap<String, Val>,
}

#[derive(Clone, Debug, Default)]
pub struct StoreRec {
    pub entry_size: u16,
    pub variant_count: u8,
    pub key_count: u8,
    pub entries: Vec<DecEntry>,
}

#[derive(Clone, Debug)]
pub struct PackInfoRec {
    pub uuid: [u8; 16],
    pub size: u64,
    pub check_pos: u64,
    pub check_size: u16,
    pub id: u16,
    pub kind: u8,
    pub group: u8,
    pub free_data_id: u16,
    /// the pack's free data recorded in the manifest's value store (None when the store is absent or undecodable)
    pub free: Option<Vec<u8>>,
    /// the manifest's copy of the pack's check info (data bytes of the block at check_pos), empty when unreadable
    pub check_copy: Vec<u8>,
    pub location: String,
    /// absolute file offset of this 256-byte block
    pub at: u64,
}

#[derive(Clone, Debug)]
pub enum PackBody {
    Content { clusters: Vec<ClusterRec>, contents: Vec<ContentRec> },
    Directory { indexes: Vec<IndexRec>, stores: Vec<StoreRec> },
    Manifest { infos: Vec<PackInfoRec> },
    Unknown,
}

#[derive(Clone, Debug)]
pub struct PackView {
    pub hdr: PackHdr,
    /// absolute offset of the pack in the file
    pub origin: u64,
    pub body: PackBody,
    pub check_ok: Option<bool>,
    /// the 24 free bytes of the kind-specific header (bytes 36..60 of the block at +64)
    pub free: Vec<u8>,
    /// the data bytes of the pack's check block (kind byte + hash), empty when it could not be read
    pub check_block: Vec<u8>,
}

#[derive(Clone, Debug, Default)]
pub struct FileView {
    pub is_container: bool,
    pub container_hdr: Option<PackHdr>,
    pub packs: Vec<PackView>,
    pub problems: Vec<String>,
    pub spans: Vec<Span>,
    pub len: u64,
    /// CRC-protected blocks that verified: (file offset of the data, data length); the 4 CRC bytes follow the data
    pub blocks: Vec<(u64, u64)>,
}

// ------------------------------------------------------------------------------------------------
// byte helpers

fn le(buf: &[u8], at: usize, n: usize) -> Option<u64> {
    if at.checked_add(n)? > buf.len() {
        return None;
    }
    let mut v = 0u64;
    for i in (0..n).rev() {
        v = (v << 8) | buf[at + i] as u64;
    }
    Some(v)
}

fn le_signed(buf: &[u8], at: usize, n: usize) -> Option<i64> {
    let v = le(buf, at, n)?;
    if n == 8 {
        return Some(v as i64);
    }
    let shift = 64 - 8 * n as u32;
    Some(((v << shift) as i64) >> shift)
}

thread_local! { static BLOCKS: std::cell::RefCell<Vec<(usize, usize)>> = const { std::cell::RefCell::new(Vec::new()) }; }

/// block = data followed by its CRC (big-endian)
fn check_block(buf: &[u8], at: u64, data_len: u64) -> Result<&[u8], String> {
    let at = at as usize;
    let data_len = data_len as usize;
    let end = at.checked_add(data_len).and_then(|e| e.checked_add(4)).ok_or("overflow")?;
    if end > buf.len() {
        return Err(format!("block [{at}, {end}) runs past the end ({})", buf.len()));
    }
    let data = &buf[at..at + data_len];
    let stored = u32::from_be_bytes([buf[at + data_len], buf[at + data_len + 1], buf[at + data_len + 2], buf[at + data_len + 3]]);
    let crc = if data_len > 4096 { crc32c_fast(data) } else { crc32c_be(data) };
    if crc == stored {
        // remember where CRC-protected blocks lie (absolute addresses; turned into file offsets by decode_at)
        BLOCKS.with(|b| b.borrow_mut().push((buf.as_ptr() as usize + at, data_len)));
    }
    if crc != stored {
        return Err(format!("CRC mismatch on block at {at} (+{data_len}): computed {crc:08x}, stored {stored:08x}"));
    }
    Ok(data)
}

fn parse_pack_hdr(d: &[u8]) -> Result<PackHdr, String> {
    if d.len() < 60 {
        return Err("short header".into());
    }
    if &d[0..3] != b"jbk" {
        return Err("magic is not 'jbk'".into());
    }
    let mut h = PackHdr { kind: d[3], ..Default::default() };
    h.vendor.copy_from_slice(&d[4..8]);
    h.major = d[8];
    h.minor = d[9];
    h.uuid.copy_from_slice(&d[10..26]);
    h.flags = d[26];
    h.pack_size = le(d, 32, 8).unwrap();
    h.check_info_pos = le(d, 40, 8).unwrap();
    Ok(h)
}

fn sized_offset(v: u64) -> (u64, u16) {
    (v >> 16, (v & 0xffff) as u16)
}

fn pstring(buf: &[u8], at: &mut usize) -> Option<String> {
    let n = *buf.get(*at)? as usize;
    let s = buf.get(*at + 1..*at + 1 + n)?;
    *at += 1 + n;
    Some(String::from_utf8_lossy(s).into_owned())
}

pub fn uuid_hex(u: &[u8; 16]) -> String {
    crate::util::hex(u)
}

// ------------------------------------------------------------------------------------------------

impl FileView {
    fn problem(&mut self, s: impl Into<String>) {
        if self.problems.len() < 64 {
            self.problems.push(s.into());
        }
    }
    fn span(&mut self, start: u64, end: u64, pack: usize, name: &str, covered: bool, check_block: bool) {
        self.spans.push(Span { start, end, pack, name: name.to_string(), covered, check_block });
    }
    /// structure(s) owning absolute file position `pos` (most specific last)
    pub fn owner(&self, pos: u64) -> Option<&Span> {
        self.spans.iter().filter(|s| s.start <= pos && pos < s.end).min_by_key(|s| s.end - s.start)
    }
}

/// Decode a whole file: a container pack or a single pack at offset 0.
pub fn decode_file(buf: &[u8]) -> FileView {
    decode_at(buf, 0)
}

/// Decode a file whose (container) pack starts at `origin` (a container appended to a prefix).
pub fn decode_at(buf: &[u8], origin: u64) -> FileView {
    BLOCKS.with(|b| b.borrow_mut().clear());
    let mut fv = decode_at_inner(buf, origin);
    // CRC-protected blocks that verified, as (file offset of the data, data length); the CRC follows the data
    let base = buf.as_ptr() as usize;
    let mut blocks: Vec<(u64, u64)> = BLOCKS.with(|b| b.borrow().iter().filter(|(a, l)| *a >= base && a + l + 4 <= base + buf.len()).map(|(a, l)| ((a - base) as u64, *l as u64)).collect());
    blocks.sort();
    blocks.dedup();
    fv.blocks = blocks;
    fv
}

fn decode_at_inner(buf: &[u8], origin: u64) -> FileView {
    let mut fv = FileView { len: buf.len() as u64, ..Default::default() };
    let hdr = match check_block(buf, origin, 60).and_then(parse_pack_hdr) {
        Ok(h) => h,
        Err(e) => {
            fv.problem(format!("file header: {e}"));
            return fv;
        }
    };
    if hdr.kind == b'C' {
        fv.is_container = true;
        decode_container(buf, origin, hdr, &mut fv);
    } else {
        decode_pack(buf, origin, &mut fv);
    }
    fv
}

fn common_pack_rules(buf: &[u8], origin: u64, hdr: &PackHdr, what: &str, pack_idx: usize, fv: &mut FileView) {
    if (hdr.major, hdr.minor) != (0, 2) {
        fv.problem(format!("{what}: version {}.{} is not 0.2", hdr.major, hdr.minor));
    }
    for (i, b) in buf[origin as usize + 27..origin as usize + 32].iter().enumerate() {
        if *b != 0 {
            fv.problem(format!("{what}: header padding byte {} is not zero", 27 + i));
        }
    }
    for (i, b) in buf[origin as usize + 48..origin as usize + 60].iter().enumerate() {
        if *b != 0 {
            fv.problem(format!("{what}: header reserved byte {} is not zero", 48 + i));
        }
    }
    let end = origin + hdr.pack_size;
    if end > buf.len() as u64 || hdr.pack_size < 128 {
        fv.problem(format!("{what}: declared pack size {} does not fit the file ({} bytes from its origin)", hdr.pack_size, buf.len() as u64 - origin));
        return;
    }
    // tail = header block byte-reversed
    let head = &buf[origin as usize..origin as usize + 64];
    let tail = &buf[(end - 64) as usize..end as usize];
    if !head.iter().zip(tail.iter().rev()).all(|(a, b)| a == b) {
        fv.problem(format!("{what}: the last 64 bytes of the pack are not the byte-reversed header block"));
    }
    fv.span(origin, origin + 64, pack_idx, "pack header", true, false);
    fv.span(end - 64, end, pack_idx, "pack tail", false, false);
}

fn decode_container(buf: &[u8], origin: u64, hdr: PackHdr, fv: &mut FileView) {
    let what = "container";
    common_pack_rules(buf, origin, &hdr, what, usize::MAX, fv);
    // the container pack has a check block of kind 0 (no hash): 1 + 4 bytes
    let cpos = origin + hdr.check_info_pos;
    match check_block(buf, cpos, 1) {
        Ok(d) => {
            if d[0] != 0 {
                fv.problem(format!("{what}: check kind {} (expected 0 = none)", d[0]));
            }
            fv.span(cpos, cpos + 5, usize::MAX, "container check block", false, true);
        }
        Err(e) => fv.problem(format!("{what}: check block: {e}")),
    }
    if hdr.pack_size != hdr.check_info_pos + 5 + 64 {
        fv.problem(format!("{what}: declared pack size {} != check info pos {} + check block 5 + tail 64", hdr.pack_size, hdr.check_info_pos));
    }
    let ch = match check_block(buf, origin + 64, 60) {
        Ok(d) => d.to_vec(),
        Err(e) => {
            fv.problem(format!("{what} header: {e}"));
            fv.container_hdr = Some(hdr);
            return;
        }
    };
    fv.span(origin + 64, origin + 128, usize::MAX, "container header", false, false);
    let loc_pos = le(&ch, 0, 8).unwrap();
    let count = le(&ch, 8, 2).unwrap();
    if ch[10..36].iter().any(|b| *b != 0) {
        fv.problem(format!("{what} header: reserved bytes not zero"));
    }
    if loc_pos + count * 36 != hdr.check_info_pos {
        fv.problem(format!("{what}: locators [{loc_pos} + {count}*36) do not end at the check info pos {}", hdr.check_info_pos));
    }
    fv.container_hdr = Some(hdr);
    for i in 0..count {
        let at = origin + loc_pos + i * 36;
        let d = match check_block(buf, at, 32) {
            Ok(d) => d.to_vec(),
            Err(e) => {
                fv.problem(format!("{what}: locator {i}: {e}"));
                continue;
            }
        };
        fv.span(at, at + 36, usize::MAX, "pack locator", false, false);
        let mut uuid = [0u8; 16];
        uuid.copy_from_slice(&d[0..16]);
        let size = le(&d, 16, 8).unwrap();
        let off = le(&d, 24, 8).unwrap();
        if origin + off + size > buf.len() as u64 {
            fv.problem(format!("{what}: locator {i} points outside the file"));
            continue;
        }
        let before = fv.packs.len();
        decode_pack(buf, origin + off, fv);
        if fv.packs.len() > before {
            let p = &fv.packs[before];
            if p.hdr.uuid != uuid {
                fv.problems.push(format!("{what}: locator {i} uuid differs from the pack header uuid"));
            }
            if p.hdr.pack_size != size {
                fv.problems.push(format!("{what}: locator {i} size {size} differs from the pack's declared size {}", p.hdr.pack_size));
            }
        }
    }
}

fn decode_pack(buf: &[u8], origin: u64, fv: &mut FileView) {
    let idx = fv.packs.len();
    let hdr = match check_block(buf, origin, 60).and_then(parse_pack_hdr) {
        Ok(h) => h,
        Err(e) => {
            fv.problem(format!("pack at {origin}: header: {e}"));
            return;
        }
    };
    let what = format!("pack {} ('{}' at {origin})", idx, hdr.kind as char);
    common_pack_rules(buf, origin, &hdr, &what, idx, fv);
    if origin + hdr.pack_size > buf.len() as u64 {
        return;
    }
    let pbuf = &buf[origin as usize..(origin + hdr.pack_size) as usize];
    // check block: kind 1 + 32 bytes blake3 + crc
    let mut check_ok = None;
    let mut check_block_bytes: Vec<u8> = vec![];
    let cpos = hdr.check_info_pos;
    match check_block(pbuf, cpos, 33) {
        Ok(d) => {
            if d[0] != 1 {
                fv.problem(format!("{what}: check kind {} (expected 1 = blake3)", d[0]));
            }
            let stored: [u8; 32] = d[1..33].try_into().unwrap();
            check_block_bytes = d.to_vec();
            fv.span(origin + cpos, origin + cpos + 37, idx, "check block", false, true);
            if hdr.pack_size != cpos + 37 + 64 {
                fv.problem(format!("{what}: declared pack size {} != check info pos {cpos} + check block 37 + tail 64", hdr.pack_size));
            }
            // hashed range; the manifest masks bytes 38..256 of each pack info
            let mut hashed = pbuf[..cpos as usize].to_vec();
            if hdr.kind == b'm' {
                if let Some(n) = le(pbuf, 64, 2) {
                    let first = cpos as i64 - (n as i64) * 256;
                    if first >= 128 {
                        for i in 0..n {
                            let a = first as usize + i as usize * 256;
                            for b in &mut hashed[a + 38..a + 256] {
                                *b = 0;
                            }
                        }
                    }
                }
            }
            let ok = blake3::hash(&hashed).as_bytes() == &stored;
            if !ok {
                fv.problem(format!("{what}: blake3 of [0, {cpos}) does not match the stored hash"));
            }
            check_ok = Some(ok);
        }
        Err(e) => fv.problem(format!("{what}: check block: {e}")),
    }
    fv.span(origin, origin + cpos.min(hdr.pack_size), idx, "pack body (covered)", true, false);
    let body = match hdr.kind {
        b'c' => decode_content(pbuf, origin, &hdr, idx, &what, fv),
        b'd' => decode_directory(pbuf, origin, &hdr, idx, &what, fv),
        b'm' => decode_manifest(pbuf, origin, &hdr, idx, &what, fv),
        k => {
            fv.problem(format!("{what}: unexpected pack kind {k}"));
            PackBody::Unknown
        }
    };
    let free = pbuf.get(64 + 36..64 + 60).map(|f| f.to_vec()).unwrap_or_default();
    fv.packs.push(PackView { hdr, origin, body, check_ok, free, check_block: check_block_bytes });
}

fn table_u64(pbuf: &[u8], pos: u64, n: u64, what: &str, name: &str, fv: &mut FileView) -> Vec<u64> {
    match check_block(pbuf, pos, n * 8) {
        Ok(d) => (0..n as usize).map(|i| le(d, i * 8, 8).unwrap()).collect(),
        Err(e) => {
            fv.problem(format!("{what}: {name}: {e}"));
            vec![]
        }
    }
}

fn decompress(kind: u8, raw: &[u8], expect: usize) -> Result<Vec<u8>, String> {
    let mut out = Vec::with_capacity(expect);
    match kind {
        0 => out.extend_from_slice(raw),
        1 => {
            let mut d = lz4::Decoder::new(raw).map_err(|e| format!("lz4: {e}"))?;
            d.read_to_end(&mut out).map_err(|e| format!("lz4: {e}"))?;
        }
        2 => {
            let stream = xz2::stream::Stream::new_lzma_decoder(256 * 1024 * 1024).map_err(|e| format!("lzma: {e}"))?;
            let mut d = xz2::read::XzDecoder::new_stream(raw, stream);
            d.read_to_end(&mut out).map_err(|e| format!("lzma: {e}"))?;
        }
        3 => {
            let mut d = zstd::Decoder::new(raw).map_err(|e| format!("zstd: {e}"))?;
            d.read_to_end(&mut out).map_err(|e| format!("zstd: {e}"))?;
        }
        k => return Err(format!("unknown compression {k}")),
    }
    Ok(out)
}

fn decode_content(pbuf: &[u8], origin: u64, _hdr: &PackHdr, idx: usize, what: &str, fv: &mut FileView) -> PackBody {
    let h = match check_block(pbuf, 64, 60) {
        Ok(d) => d.to_vec(),
        Err(e) => {
            fv.problem(format!("{what}: content header: {e}"));
            return PackBody::Unknown;
        }
    };
    fv.span(origin + 64, origin + 128, idx, "content pack header", true, false);
    let content_ptr = le(&h, 0, 8).unwrap();
    let cluster_ptr = le(&h, 8, 8).unwrap();
    let content_count = le(&h, 16, 4).unwrap();
    let cluster_count = le(&h, 20, 4).unwrap();
    if h[24..36].iter().any(|b| *b != 0) {
        fv.problem(format!("{what}: content header reserved bytes not zero"));
    }
    let cluster_tab = table_u64(pbuf, cluster_ptr, cluster_count, what, "cluster table", fv);
    fv.span(origin + cluster_ptr, origin + cluster_ptr + cluster_count * 8 + 4, idx, "cluster table", true, false);
    let content_tab: Vec<u32> = match check_block(pbuf, content_ptr, content_count * 4) {
        Ok(d) => (0..content_count as usize).map(|i| le(d, i * 4, 4).unwrap() as u32).collect(),
        Err(e) => {
            fv.problem(format!("{what}: content table: {e}"));
            vec![]
        }
    };
    fv.span(origin + content_ptr, origin + content_ptr + content_count * 4 + 4, idx, "content table", true, false);
    let mut clusters = vec![];
    for (ci, so) in cluster_tab.iter().enumerate() {
        let (off, size) = sized_offset(*so);
        let mut c = ClusterRec { tail_start: origin + off, ..Default::default() };
        match check_block(pbuf, off, size as u64) {
            Err(e) => fv.problem(format!("{what}: cluster {ci} tail: {e}")),
            Ok(t) => {
                fv.span(origin + off, origin + off + size as u64 + 4, idx, "cluster tail", true, false);
                if t.len() < 4 {
                    fv.problem(format!("{what}: cluster {ci} tail too short"));
                } else {
                    c.compression = t[0];
                    c.offset_size = t[1];
                    c.blob_count = le(t, 2, 2).unwrap() as u16;
                    let w = c.offset_size as usize;
                    let need = 4 + w * (2 + (c.blob_count as usize).saturating_sub(1));
                    if !(1..=8).contains(&w) || t.len() != need {
                        fv.problem(format!("{what}: cluster {ci}: tail length {} != 4 + {w}*(2+{}-1)", t.len(), c.blob_count));
                    } else {
                        c.raw_size = le(t, 4, w).unwrap();
                        c.data_size = le(t, 4 + w, w).unwrap();
                        c.offsets.push(0);
                        for b in 0..(c.blob_count as usize).saturating_sub(1) {
                            c.offsets.push(le(t, 4 + 2 * w + b * w, w).unwrap());
                        }
                        c.offsets.push(c.data_size);
                        if c.offsets.windows(2).any(|p| p[0] > p[1]) {
                            fv.problem(format!("{what}: cluster {ci}: blob offsets decrease"));
                        }
                        if c.raw_size > off.saturating_sub(128) {
                            fv.problem(format!("{what}: cluster {ci}: stored size {} larger than the room before the tail", c.raw_size));
                        } else {
                            c.data_start = origin + off - c.raw_size;
                            fv.span(c.data_start, origin + off, idx, if c.compression == 0 { "cluster data (raw)" } else { "cluster data (compressed)" }, true, false);
                            let raw = &pbuf[(off - c.raw_size) as usize..off as usize];
                            if c.compression == 0 && c.raw_size != c.data_size {
                                fv.problem(format!("{what}: cluster {ci}: raw cluster with stored size {} != data size {}", c.raw_size, c.data_size));
                            }
                            match decompress(c.compression, raw, c.data_size as usize) {
                                Ok(p) => {
                                    if p.len() as u64 != c.data_size {
                                        fv.problem(format!("{what}: cluster {ci}: decoded {} bytes, tail says {}", p.len(), c.data_size));
                                    }
                                    c.plain = Some(p);
                                }
                                Err(e) => fv.problem(format!("{what}: cluster {ci}: cannot decode: {e}")),
                            }
                        }
                    }
                }
            }
        }
        clusters.push(c);
    }
    let mut contents = vec![];
    for (i, v) in content_tab.iter().enumerate() {
        let cluster = v >> 12;
        let blob = (v & 0xfff) as u16;
        let mut rec = ContentRec { cluster, blob, compression: 0xff, raw_offset: None, size: 0 };
        match clusters.get(cluster as usize) {
            None => fv.problem(format!("{what}: content {i} refers to cluster {cluster} >= {}", clusters.len())),
            Some(c) => {
                if (blob as usize) + 1 >= c.offsets.len() {
                    fv.problem(format!("{what}: content {i} refers to blob {blob} of cluster {cluster} which has {}", c.blob_count));
                } else {
                    rec.compression = c.compression;
                    rec.size = c.offsets[blob as usize + 1] - c.offsets[blob as usize];
                    if c.compression == 0 {
                        rec.raw_offset = Some(c.data_start + c.offsets[blob as usize]);
                    }
                }
            }
        }
        contents.push(rec);
    }
    PackBody::Content { clusters, contents }
}

impl PackView {
    /// plain bytes of content `i` of a content pack
    pub fn content_bytes(&self, i: usize) -> Option<Vec<u8>> {
        if let PackBody::Content { clusters, contents } = &self.body {
            let r = contents.get(i)?;
            let c = clusters.get(r.cluster as usize)?;
            let p = c.plain.as_ref()?;
            let a = *c.offsets.get(r.blob as usize)? as usize;
            let b = *c.offsets.get(r.blob as usize + 1)? as usize;
            p.get(a..b).map(|s| s.to_vec())
        } else {
            None
        }
    }
}

// ---- directory

#[derive(Clone, Debug)]
enum KeyKind {
    Padding,
    Content { pack_size: usize, content_size: usize, default_pack: Option<u16> },
    UInt { size: usize, default: Option<u64> },
    SInt { size: usize, default: Option<i64> },
    Array { len_size: usize, fixed: usize, key_size: usize, store: u8, default: Option<(u64, Vec<u8>, Option<u64>)> },
    VariantId,
    Deported,
}

#[derive(Clone, Debug)]
struct KeyInfo {
    kind: KeyKind,
    size: usize,
    name: String,
}

fn parse_keys(t: &[u8], mut at: usize, count: usize) -> Result<Vec<KeyInfo>, String> {
    let mut keys = vec![];
    for ki in 0..count {
        let b = *t.get(at).ok_or("key info truncated")?;
        at += 1;
        let ty = b >> 4;
        let lo = b & 0x0f;
        let err = || format!("key info {ki} truncated");
        let k = match ty {
            0b0000 => KeyInfo { kind: KeyKind::Padding, size: lo as usize + 1, name: String::new() },
            0b0001 => {
                let pack_size = ((lo & 0b0100) >> 2) as usize + 1;
                let content_size = (lo & 0b0011) as usize + 1;
                let default_pack = if lo & 0b1000 != 0 {
                    let v = le(t, at, pack_size).ok_or_else(err)? as u16;
                    at += pack_size;
                    Some(v)
                } else {
                    None
                };
                let name = pstring(t, &mut at).ok_or_else(err)?;
                KeyInfo { kind: KeyKind::Content { pack_size, content_size, default_pack }, size: content_size + if default_pack.is_some() { 0 } else { pack_size }, name }
            }
            0b0010 | 0b0011 => {
                let size = (lo & 0x07) as usize + 1;
                let has_default = lo & 0b1000 != 0;
                if ty == 0b0010 {
                    let default = if has_default {
                        let v = le(t, at, size).ok_or_else(err)?;
                        at += size;
                        Some(v)
                    } else {
                        None
                    };
                    let name = pstring(t, &mut at).ok_or_else(err)?;
                    KeyInfo { kind: KeyKind::UInt { size, default }, size: if has_default { 0 } else { size }, name }
                } else {
                    let default = if has_default {
                        let v = le_signed(t, at, size).ok_or_else(err)?;
                        at += size;
                        Some(v)
                    } else {
                        None
                    };
                    let name = pstring(t, &mut at).ok_or_else(err)?;
                    KeyInfo { kind: KeyKind::SInt { size, default }, size: if has_default { 0 } else { size }, name }
                }
            }
            0b0101 => {
                let has_default = lo & 0b1000 != 0;
                let len_size = (lo & 0b0011) as usize;
                let comp = *t.get(at).ok_or_else(err)?;
                at += 1;
                let fixed = (comp & 0x1f) as usize;
                let key_size = (comp >> 5) as usize;
                let mut store = 0u8;
                if key_size != 0 {
                    store = *t.get(at).ok_or_else(err)?;
                    at += 1;
                }
                let default = if has_default {
                    let len = le(t, at, len_size).ok_or_else(err)?;
                    at += len_size;
                    let fx = t.get(at..at + fixed).ok_or_else(err)?.to_vec();
                    at += fixed;
                    let key = if key_size != 0 {
                        let v = le(t, at, key_size).ok_or_else(err)?;
                        at += key_size;
                        Some(v)
                    } else {
                        None
                    };
                    Some((len, fx, key))
                } else {
                    None
                };
                let name = pstring(t, &mut at).ok_or_else(err)?;
                KeyInfo { kind: KeyKind::Array { len_size, fixed, key_size, store, default }, size: if has_default { 0 } else { len_size + fixed + key_size }, name }
            }
            0b1000 => {
                if lo != 0 {
                    return Err(format!("key info {ki}: variant id with non-zero low bits"));
                }
                let name = pstring(t, &mut at).ok_or_else(err)?;
                KeyInfo { kind: KeyKind::VariantId, size: 1, name }
            }
            0b1010 | 0b1011 => {
                let has_default = lo & 0b1000 != 0;
                let ks = (*t.get(at).ok_or_else(err)? & 0x07) as usize + 1;
                at += 2;
                if has_default {
                    at += ks;
                }
                let name = pstring(t, &mut at).ok_or_else(err)?;
                KeyInfo { kind: KeyKind::Deported, size: if has_default { 0 } else { ks }, name }
            }
            other => return Err(format!("key info {ki}: unknown key type {other:#06b}")),
        };
        keys.push(k);
    }
    if at != t.len() {
        return Err(format!("key infos end at {at}, tail has {} bytes", t.len()));
    }
    Ok(keys)
}

#[derive(Clone, Debug)]
enum VStore {
    Plain(Vec<u8>),
    Indexed(Vec<u64>, Vec<u8>),
    Bad,
}

fn decode_directory(pbuf: &[u8], origin: u64, _hdr: &PackHdr, idx: usize, what: &str, fv: &mut FileView) -> PackBody {
    let h = match check_block(pbuf, 64, 60) {
        Ok(d) => d.to_vec(),
        Err(e) => {
            fv.problem(format!("{what}: directory header: {e}"));
            return PackBody::Unknown;
        }
    };
    fv.span(origin + 64, origin + 128, idx, "directory pack header", true, false);
    let index_ptr = le(&h, 0, 8).unwrap();
    let estore_ptr = le(&h, 8, 8).unwrap();
    let vstore_ptr = le(&h, 16, 8).unwrap();
    let index_count = le(&h, 24, 4).unwrap();
    let estore_count = le(&h, 28, 4).unwrap();
    let vstore_count = le(&h, 32, 1).unwrap();
    if h[33..36].iter().any(|b| *b != 0) {
        fv.problem(format!("{what}: directory header reserved bytes not zero"));
    }
    let index_tab = table_u64(pbuf, index_ptr, index_count, what, "index table", fv);
    fv.span(origin + index_ptr, origin + index_ptr + index_count * 8 + 4, idx, "index table", true, false);
    let estore_tab = table_u64(pbuf, estore_ptr, estore_count, what, "entry store table", fv);
    fv.span(origin + estore_ptr, origin + estore_ptr + estore_count * 8 + 4, idx, "entry store table", true, false);
    let vstore_tab = table_u64(pbuf, vstore_ptr, vstore_count, what, "value store table", fv);
    fv.span(origin + vstore_ptr, origin + vstore_ptr + vstore_count * 8 + 4, idx, "value store table", true, false);

    // value stores
    let mut vstores = vec![];
    for (vi, so) in vstore_tab.iter().enumerate() {
        let (off, size) = sized_offset(*so);
        let t = match check_block(pbuf, off, size as u64) {
            Ok(t) => t,
            Err(e) => {
                fv.problem(format!("{what}: value store {vi} tail: {e}"));
                vstores.push(VStore::Bad);
                continue;
            }
        };
        fv.span(origin + off, origin + off + size as u64 + 4, idx, "value store tail", true, false);
        let parsed = parse_vstore(pbuf, origin, off, t, idx, fv);
        match parsed {
            Ok(v) => vstores.push(v),
            Err(e) => {
                fv.problem(format!("{what}: value store {vi}: {e}"));
                vstores.push(VStore::Bad);
            }
        }
    }

    // entry stores
    let mut stores = vec![];
    for (si, so) in estore_tab.iter().enumerate() {
        let (off, size) = sized_offset(*so);
        let mut rec = StoreRec::default();
        let t = match check_block(pbuf, off, size as u64) {
            Ok(t) => t.to_vec(),
            Err(e) => {
                fv.problem(format!("{what}: entry store {si} tail: {e}"));
                stores.push(rec);
                continue;
            }
        };
        fv.span(origin + off, origin + off + size as u64 + 4, idx, "entry store tail", true, false);
        let r = (|| -> Result<(), String> {
            if t.len() < 10 {
                return Err("tail too short".into());
            }
            if t[0] != 0 {
                return Err(format!("store kind {} (only plain = 0 is defined)", t[0]));
            }
            let count = le(&t, 1, 4).unwrap();
            let flag = t[5];
            if flag != 0 {
                return Err(format!("flag {flag} (per-entry checks are not produced by the writer)"));
            }
            rec.entry_size = le(&t, 6, 2).unwrap() as u16;
            rec.variant_count = t[8];
            rec.key_count = t[9];
            let keys = parse_keys(&t, 10, rec.key_count as usize)?;
            // split common / variants
            let mut common: Vec<KeyInfo> = vec![];
            let mut variants: Vec<(String, Vec<KeyInfo>)> = vec![];
            for k in keys {
                if let KeyKind::VariantId = k.kind {
                    variants.push((k.name.clone(), vec![]));
                } else if let Some(v) = variants.last_mut() {
                    v.1.push(k);
                } else {
                    common.push(k);
                }
            }
            if variants.len() != rec.variant_count as usize {
                return Err(format!("variant count {} but {} variant ids in the key infos", rec.variant_count, variants.len()));
            }
            let common_size: usize = common.iter().map(|k| k.size).sum();
            let esize = rec.entry_size as usize;
            if variants.is_empty() {
                if common_size != esize {
                    return Err(format!("common properties take {common_size} bytes, entry size is {esize}"));
                }
            } else {
                for (n, v) in &variants {
                    let vs: usize = v.iter().map(|k| k.size).sum();
                    if common_size + 1 + vs != esize {
                        return Err(format!("variant {n}: {common_size} + 1 + {vs} bytes != entry size {esize} (all variants must have the same size)"));
                    }
                }
            }
            let dsize = count * esize as u64;
            let dstart = off.checked_sub(dsize + 4).ok_or("entry data before pack start")?;
            let data = check_block(pbuf, dstart, dsize)?;
            fv.span(origin + dstart, origin + off, idx, "entry store data", true, false);
            for e in 0..count as usize {
                let eb = &data[e * esize..(e + 1) * esize];
                let mut at = 0usize;
                let mut vals = BTreeMap::new();
                decode_props(&common, eb, &mut at, &vstores, &mut vals)?;
                let mut variant = None;
                if !variants.is_empty() {
                    let vid = eb[at] as usize;
                    at += 1;
                    let (n, props) = variants.get(vid).ok_or(format!("entry {e}: variant id {vid} >= {}", variants.len()))?;
                    variant = Some(n.clone());
                    decode_props(props, eb, &mut at, &vstores, &mut vals)?;
                }
                if at != esize {
                    return Err(format!("entry {e}: decoded {at} bytes of {esize}"));
                }
                rec.entries.push(DecEntry { variant, vals });
            }
            Ok(())
        })();
        if let Err(e) = r {
            fv.problem(format!("{what}: entry store {si}: {e}"));
        }
        stores.push(rec);
    }

    // indexes
    let mut indexes = vec![];
    for (ii, so) in index_tab.iter().enumerate() {
        let (off, size) = sized_offset(*so);
        match check_block(pbuf, off, size as u64) {
            Err(e) => fv.problem(format!("{what}: index {ii}: {e}")),
            Ok(t) => {
                fv.span(origin + off, origin + off + size as u64 + 4, idx, "index header", true, false);
                if t.len() < 18 {
                    fv.problem(format!("{what}: index {ii}: header too short"));
                    continue;
                }
                let mut at = 17;
                let name = pstring(t, &mut at).unwrap_or_default();
                if at != t.len() {
                    fv.problem(format!("{what}: index {ii}: header length {} != 17 + pstring", t.len()));
                }
                let rec = IndexRec { store: le(t, 0, 4).unwrap() as u32, count: le(t, 4, 4).unwrap() as u32, offset: le(t, 8, 4).unwrap() as u32, key: t[16], free: [t[12], t[13], t[14], t[15]], name };
                if let Some(s) = stores.get(rec.store as usize) {
                    if (rec.offset as u64 + rec.count as u64) as usize > s.entries.len() && !s.entries.is_empty() {
                        fv.problem(format!("{what}: index {ii} window [{}, +{}) exceeds its store ({} entries)", rec.offset, rec.count, s.entries.len()));
                    }
                } else {
                    fv.problem(format!("{what}: index {ii} refers to entry store {} of {}", rec.store, stores.len()));
                }
                indexes.push(rec);
            }
        }
    }
    PackBody::Directory { indexes, stores }
}

/// Decode a value store (plain or indexed) from its tail `t` found at `off`; the data block lies right before the tail.
fn parse_vstore(pbuf: &[u8], origin: u64, off: u64, t: &[u8], idx: usize, fv: &mut FileView) -> Result<VStore, String> {
    match *t.first().ok_or("empty tail")? {
        0 => {
            if t.len() != 9 {
                return Err(format!("plain store tail length {} != 9", t.len()));
            }
            let dsize = le(t, 1, 8).unwrap();
            let dstart = off.checked_sub(dsize + 4).ok_or("data before pack start")?;
            let d = check_block(pbuf, dstart, dsize)?;
            fv.span(origin + dstart, origin + off, idx, "value store data", true, false);
            Ok(VStore::Plain(d.to_vec()))
        }
        1 => {
            let count = le(t, 1, 8).ok_or("short")?;
            let w = *t.get(9).ok_or("short")? as usize;
            if !(1..=8).contains(&w) {
                return Err(format!("offset size {w}"));
            }
            let need = 10 + w + w * (count as usize).saturating_sub(1);
            if t.len() != need {
                return Err(format!("indexed store tail length {} != {need}", t.len()));
            }
            let dsize = le(t, 10, w).unwrap();
            let mut offs = vec![0u64];
            for i in 0..(count as usize).saturating_sub(1) {
                offs.push(le(t, 10 + w + i * w, w).unwrap());
            }
            if count > 0 {
                offs.push(dsize);
            }
            if offs.windows(2).any(|p| p[0] > p[1]) {
                return Err("value offsets decrease".into());
            }
            let dstart = off.checked_sub(dsize + 4).ok_or("data before pack start")?;
            let d = check_block(pbuf, dstart, dsize)?;
            fv.span(origin + dstart, origin + off, idx, "value store data", true, false);
            Ok(VStore::Indexed(offs, d.to_vec()))
        }
        k => Err(format!("unknown value store kind {k}")),
    }
}

fn store_bytes(vs: &VStore, key: u64, size: Option<u64>) -> Result<Vec<u8>, String> {
    match vs {
        VStore::Plain(d) => {
            let size = size.ok_or("plain store needs a size")?;
            d.get(key as usize..(key + size) as usize).map(|s| s.to_vec()).ok_or(format!("plain store: [{key}, +{size}) outside {} bytes", d.len()))
        }
        VStore::Indexed(offs, d) => {
            let a = *offs.get(key as usize).ok_or(format!("indexed store: key {key} of {}", offs.len().saturating_sub(1)))?;
            let end = match size {
                Some(s) => a + s,
                None => *offs.get(key as usize + 1).ok_or(format!("indexed store: key {key} has no end"))?,
            };
            d.get(a as usize..end as usize).map(|s| s.to_vec()).ok_or(format!("indexed store: [{a}, {end}) outside {} bytes", d.len()))
        }
        VStore::Bad => Err("value store unreadable".into()),
    }
}

fn decode_props(props: &[KeyInfo], eb: &[u8], at: &mut usize, vstores: &[VStore], vals: &mut BTreeMap<String, Val>) -> Result<(), String> {
    for k in props {
        match &k.kind {
            KeyKind::Padding => *at += k.size,
            KeyKind::VariantId => return Err("variant id inside a property list".into()),
            KeyKind::Deported => return Err("deported integer (never produced by the writer)".into()),
            KeyKind::UInt { size, default } => {
                let v = match default {
                    Some(d) => *d,
                    None => {
                        let v = le(eb, *at, *size).ok_or("entry too short")?;
                        *at += size;
                        v
                    }
                };
                vals.insert(k.name.clone(), Val::U(v));
            }
            KeyKind::SInt { size, default } => {
                let v = match default {
                    Some(d) => *d,
                    None => {
                        let v = le_signed(eb, *at, *size).ok_or("entry too short")?;
                        *at += size;
                        v
                    }
                };
                vals.insert(k.name.clone(), Val::S(v));
            }
            KeyKind::Content { pack_size, content_size, default_pack } => {
                let pack = match default_pack {
                    Some(p) => *p,
                    None => {
                        let v = le(eb, *at, *pack_size).ok_or("entry too short")? as u16;
                        *at += pack_size;
                        v
                    }
                };
                let c = le(eb, *at, *content_size).ok_or("entry too short")? as u32;
                *at += content_size;
                vals.insert(k.name.clone(), Val::C(pack, c));
            }
            KeyKind::Array { len_size, fixed, key_size, store, default } => {
                let (len, fx, key) = match default {
                    Some((l, f, k)) => (if *len_size > 0 { Some(*l) } else { None }, f.clone(), *k),
                    None => {
                        let len = if *len_size > 0 {
                            let v = le(eb, *at, *len_size).ok_or("entry too short")?;
                            *at += len_size;
                            Some(v)
                        } else {
                            None
                        };
                        let fx = eb.get(*at..*at + fixed).ok_or("entry too short")?.to_vec();
                        *at += fixed;
                        let key = if *key_size > 0 {
                            let v = le(eb, *at, *key_size).ok_or("entry too short")?;
                            *at += key_size;
                            Some(v)
                        } else {
                            None
                        };
                        (len, fx, key)
                    }
                };
                let base_len = match len {
                    Some(l) => (l as usize).min(*fixed),
                    None => *fixed,
                };
                if fx[base_len..].iter().any(|b| *b != 0) {
                    return Err(format!("array {}: inline part beyond the array length is not zero padded", k.name));
                }
                let mut v = fx[..base_len].to_vec();
                if let Some(key) = key {
                    let vs = vstores.get(*store as usize).ok_or(format!("array {}: value store {} missing", k.name, store))?;
                    let rest = len.map(|l| l - base_len as u64);
                    if rest != Some(0) {
                        v.extend(store_bytes(vs, key, rest).map_err(|e| format!("array {}: {e}", k.name))?);
                    }
                } else if let Some(l) = len {
                    if l as usize > *fixed {
                        return Err(format!("array {}: length {l} > inline size {fixed} without a value store", k.name));
                    }
                }
                vals.insert(k.name.clone(), Val::A(v));
            }
        }
    }
    Ok(())
}

// ---- manifest

fn decode_manifest(pbuf: &[u8], origin: u64, hdr: &PackHdr, idx: usize, what: &str, fv: &mut FileView) -> PackBody {
    let h = match check_block(pbuf, 64, 60) {
        Ok(d) => d.to_vec(),
        Err(e) => {
            fv.problem(format!("{what}: manifest header: {e}"));
            return PackBody::Unknown;
        }
    };
    fv.span(origin + 64, origin + 128, idx, "manifest pack header", true, false);
    let count = le(&h, 0, 2).unwrap();
    let (vs_off, vs_size) = sized_offset(le(&h, 2, 8).unwrap());
    if h[10..36].iter().any(|b| *b != 0) {
        fv.problem(format!("{what}: manifest header reserved bytes not zero"));
    }
    let mut mvs = VStore::Bad;
    if vs_off != 0 || vs_size != 0 {
        match check_block(pbuf, vs_off, vs_size as u64) {
            Ok(t) => {
                fv.span(origin + vs_off, origin + vs_off + vs_size as u64 + 4, idx, "manifest value store tail", true, false);
                let t = t.to_vec();
                match parse_vstore(pbuf, origin, vs_off, &t, idx, fv) {
                    Ok(v) => mvs = v,
                    Err(e) => fv.problem(format!("{what}: manifest value store: {e}")),
                }
            }
            Err(e) => fv.problem(format!("{what}: manifest value store tail: {e}")),
        }
    }
    let first = hdr.check_info_pos as i64 - count as i64 * 256;
    if first < 128 {
        fv.problem(format!("{what}: {count} pack infos do not fit before the check info pos {}", hdr.check_info_pos));
        return PackBody::Manifest { infos: vec![] };
    }
    let mut infos = vec![];
    for i in 0..count {
        let at = first as u64 + i * 256;
        match check_block(pbuf, at, 252) {
            Err(e) => fv.problem(format!("{what}: pack info {i}: {e}")),
            Ok(d) => {
                let mut uuid = [0u8; 16];
                uuid.copy_from_slice(&d[0..16]);
                let (cpos, csize) = sized_offset(le(d, 24, 8).unwrap());
                let llen = d[38] as usize;
                if llen > 213 {
                    fv.problem(format!("{what}: pack info {i}: location length {llen} > 213"));
                }
                let location = String::from_utf8_lossy(&d[39..39 + llen.min(213)]).into_owned();
                if d[39 + llen.min(213)..252].iter().any(|b| *b != 0) {
                    fv.problem(format!("{what}: pack info {i}: location padding not zero"));
                }
                // the pack's own check info copied in the manifest
                let check_copy = match check_block(pbuf, cpos, csize as u64) {
                    Ok(c) => c.to_vec(),
                    Err(e) => {
                        fv.problem(format!("{what}: pack info {i}: check info copy: {e}"));
                        vec![]
                    }
                };
                fv.span(origin + at, origin + at + 38, idx, "pack info (checked part)", true, false);
                fv.span(origin + at + 38, origin + at + 256, idx, "pack info (location, masked)", false, false);
                infos.push(PackInfoRec {
                    uuid,
                    size: le(d, 16, 8).unwrap(),
                    check_pos: cpos,
                    check_size: csize,
                    id: le(d, 32, 2).unwrap() as u16,
                    kind: d[34],
                    group: d[35],
                    free_data_id: le(d, 36, 2).unwrap() as u16,
                    free: store_bytes(&mvs, le(d, 36, 2).unwrap(), None).ok(),
                    check_copy,
                    location,
                    at: origin + at,
                });
            }
        }
    }
    PackBody::Manifest { infos }
}

impl FileView {
    pub fn content_pack(&self) -> Option<&PackView> {
        self.packs.iter().find(|p| matches!(p.body, PackBody::Content { .. }))
    }
    pub fn directory_pack(&self) -> Option<&PackView> {
        self.packs.iter().find(|p| matches!(p.body, PackBody::Directory { .. }))
    }
    pub fn manifest_pack(&self) -> Option<&PackView> {
        self.packs.iter().find(|p| matches!(p.body, PackBody::Manifest { .. }))
    }
}

#[cfg(test)]
mod tests {
    use super::*;
    #[test]
    fn crc_check_value() {
        // "check" value of the algorithm declared in the library's source comment
        assert_eq!(crc32c_be(b"123456789"), 0xFABBF0EA);
        assert_eq!(crc32c_fast(b"123456789"), 0xFABBF0EA);
    }
}
