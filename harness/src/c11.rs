//! C11 — an unavailable pack is reported as missing, and everything else still reads.

use crate::c01::Pkg;
use crate::cont::*;
use crate::dump::*;
use crate::indep::{self, PackBody};
use crate::proto::*;
use crate::rng::{Fp, Rng};
use crate::util::{self, Scratch};
use serde_json::{json, Value};
use std::collections::BTreeMap;
use std::path::{Path, PathBuf};
use std::sync::Arc;

pub fn count(tier: Tier) -> u64 {
    tier.pick(160, 4000)
}

pub fn gen(seed: u64, tier: Tier, k: u64) -> Value {
    let mut rng = Rng::keyed(seed, "C11", k);
    // 1..4 content packs: the main one + 0..3 extras; separate files so that each can go missing
    let n_extra = (k % 4) as usize;
    let pkg = if k % 2 == 0 { Pkg::TwoFiles } else { Pkg::NoConcat };
    if k % 8 == 7 {
        // 3..4 content packs, all but the last embedded with the empty location
        let mut case = gen_small(&mut rng, tier, Pkg::NoConcat, 2 + (k / 8 % 2) as usize, 4);
        // content packs numbered from 0 in half of these containers (the low-level creators take any id; the high-level one starts at 1)
        if k % 16 == 15 {
            case.first_id = 0;
        }
        return json!({"case": case.to_json(), "scn_seed": rng.next(), "mode": "loose"});
    }
    let mut case = gen_small(&mut rng, tier, pkg, n_extra, 5);
    // pack ids of the extra packs: dense, or spread out (a hole in the id space is an unknown pack, not a missing one)
    if n_extra > 0 && k % 16 >= 10 {
        case.id_gap = *rng.pick(&[1u16, 3, 300]);
    }
    // the extra packs next to the container, or in a sub-directory `packs/` (recorded as `packs/extraN.jbkc`)
    json!({"case": case.to_json(), "scn_seed": rng.next(), "subdir": n_extra > 0 && k % 5 == 3})
}

fn kind_name(k: u8) -> &'static str {
    match k {
        b'm' => "Manifest",
        b'd' => "Directory",
        b'c' => "Content",
        b'C' => "Container",
        _ => "?",
    }
}

fn copy_dir(src: &Path, dst: &Path) {
    std::fs::create_dir_all(dst).unwrap();
    for e in std::fs::read_dir(src).unwrap().flatten() {
        let p = e.path();
        if p.is_dir() {
            copy_dir(&p, &dst.join(p.file_name().unwrap()));
        } else {
            std::fs::copy(&p, dst.join(p.file_name().unwrap())).unwrap();
        }
    }
}

/// Embedded content packs sharing one (empty) location next to an external one: packs built with the low-level
/// creators, all but the last recorded with location "" and joined with manifest and directory by tools::concat.
/// The external pack is removed or kept; one EMBEDDED pack that is not the first one gets an altered byte.
fn run_loose(desc: &Value, ctx: &Ctx) -> CaseOut {
    let mut out = CaseOut::new();
    let case = ContCase::from_json(desc.get("case").unwrap());
    let mut rng = Rng::new(ju64(desc, "scn_seed"));
    let scratch = Scratch::new(&ctx.work, "c11l");
    let mut fp = Fp::new();
    fp.s("loose").u(case.extra.len() as u64).u(ju64(desc, "scn_seed"));
    out.fp = fp.hex();
    let n_packs = 1 + case.extra.len();
    let r = util::catch(|| {
        let origin = scratch.path("origin");
        std::fs::create_dir_all(&origin).unwrap();
        // last content pack external, the others embedded with the empty location
        let last = n_packs;
        // its pack id (the ids start at `first_id`, which the low-level creators let the application choose)
        let last_id = case.pack_id(n_packs - 1);
        // (an embedded pack is recorded either with the empty location or with the name of the file it came from, which no
        // longer exists once the packs are joined: a pack held by the opened file is found there by uuid, whatever location it carries)
        let stale_bits = ju64(desc, "scn_seed") >> 8;
        let stale = |i: usize| (stale_bits >> (i % 48)) & 1 == 1;
        out.obs.add("embedded_packs_with_stale_location", (0..last).filter(|i| stale(*i)).count() as u64);
        let created = match create_loose(&case, &origin, &|i, f| if i == last || stale(i) { f.to_string() } else { String::new() }, None) {
            Ok(c) => c,
            Err(e) => return out.inconclusive(format!("creation failed: {e}")),
        };
        // concat everything but the last pack into c.jbk (the manifest was written as c.jbk: move it aside first)
        let manifest = origin.join("m.jbkm");
        std::fs::rename(origin.join("c.jbk"), &manifest).unwrap();
        let mut inputs = vec![manifest.clone(), origin.join("dir.jbkd")];
        for i in 1..last {
            inputs.push(origin.join(format!("pack{i}.jbkc")));
        }
        rng.shuffle(&mut inputs);
        let outp = camino::Utf8PathBuf::from_path_buf(origin.join("c.jbk")).unwrap();
        if let Err(e) = jubako::tools::concat(&inputs, &outp) {
            return out.inconclusive(format!("concat failed (C10's concern): {e}"));
        }
        for f in &inputs {
            let _ = std::fs::remove_file(f);
        }
        // a second, independent creation of the same logical packs (other uuids): decoys for the stale locations
        let foreign_dir = scratch.path("foreign");
        std::fs::create_dir_all(&foreign_dir).unwrap();
        let foreign_ok = create_loose(&case, &foreign_dir, &|_, f| f.to_string(), None).is_ok();
        let plan = plan_for(&case, Some(&created));
        let pristine_expected = expected_dump(&case, &created, &plan);
        let mut scn = 0u64;
        for (remove_external, damage_embedded) in [(false, false), (true, false), (true, true), (false, true)] {
            let dir = scratch.path(&format!("l{remove_external}{damage_embedded}"));
            copy_dir(&origin, &dir);
            // in half of the scenarios a DIFFERENT valid pack sits at each stale location: the pack held by the opened file
            // is the one that must be used (identity is the uuid; the file at hand is searched first)
            if foreign_ok && !remove_external {
                for i in 1..last {
                    if stale(i) {
                        let name = format!("pack{i}.jbkc");
                        if std::fs::copy(foreign_dir.join(&name), dir.join(&name)).is_ok() {
                            out.obs.inc("decoy_packs_at_stale_locations");
                        }
                    }
                }
            }
            let ext = dir.join(format!("pack{last}.jbkc"));
            if remove_external {
                std::fs::remove_file(&ext).unwrap();
            }
            let mut damaged_id = None;
            if damage_embedded && n_packs >= 3 {
                // an embedded content pack which is NOT the first content pack listed (ids 2..last-1)
                let target = case.pack_id(rng.range(2, last as u64 - 1) as usize - 1);
                let f = dir.join("c.jbk");
                let mut bytes = std::fs::read(&f).unwrap();
                let view = indep::decode_file(&bytes);
                let mut uuid_of = std::collections::BTreeMap::new();
                if let Some(PackBody::Manifest { infos }) = view.manifest_pack().map(|p| &p.body) {
                    for i in infos {
                        uuid_of.insert(i.id, i.uuid);
                    }
                }
                if let Some(pi) = view.packs.iter().position(|p| Some(&p.hdr.uuid) == uuid_of.get(&target)) {
                    let spans: Vec<_> = view.spans.iter().filter(|s| s.pack == pi && s.name.starts_with("cluster data")).collect();
                    if let Some(sp) = spans.first() {
                        let pos = sp.start + rng.below(sp.end - sp.start);
                        bytes[pos as usize] ^= 0x21;
                        std::fs::write(&f, &bytes).unwrap();
                        damaged_id = Some(target);
                    }
                }
            }
            let mut plan2 = plan.clone();
            if let Some(d) = damaged_id {
                plan2.addrs.retain(|(p, _)| *p != d);
            }
            let got = dump_container(&dir.join("c.jbk"), &plan2);
            scn += 1;
            out.obs.inc("scenario.loose-embedded");
            let mut diffs = vec![];
            // structure and contents of intact, available packs
            let keep = |k: &str| {
                if k.starts_with("check/") || k.starts_with("pack/") {
                    return false;
                }
                if let Some(rest) = k.strip_prefix("content/") {
                    let p: u16 = rest.split('/').next().unwrap().parse().unwrap_or(0);
                    if Some(p) == damaged_id || (remove_external && p == last_id) {
                        return false;
                    }
                }
                true
            };
            diffs.extend(diff(&pristine_expected, &got, keep));
            if remove_external {
                for (k, v) in &got {
                    if let Some(rest) = k.strip_prefix("content/") {
                        let p: usize = rest.split('/').next().unwrap().parse().unwrap_or(0);
                        if p == last_id as usize && !k.ends_with("/bytes") && !k.ends_with("/streamed") && !v.starts_with("ok:missing:") {
                            diffs.push(format!("{k}: {v} (expected ok:missing:…)"));
                        }
                    }
                }
                out.obs.inc("packs_unavailable");
            }
            let chk = got.get("check/container").cloned().unwrap_or_default();
            if damaged_id.is_some() {
                out.obs.inc("scenarios_with_damaged_present_pack");
                if chk == "ok:true" {
                    diffs.push("check/container: ok:true although an embedded content pack (not the first one) was altered".into());
                }
            } else if chk != "ok:true" {
                diffs.push(format!("check/container: {chk} (expected ok:true)"));
            }
            if !diffs.is_empty() {
                let item = diffs[0].split(':').next().unwrap_or("").split('/').next().unwrap_or("").to_string();
                out.violate(
                    json!({"kind": "missing-pack", "mode": "loose-embedded", "item": item, "damaged": damaged_id.is_some(), "external_removed": remove_external, "profile": profile()}),
                    format!("C11: embedded packs sharing the empty location, external pack {}{}: {} item(s) wrong; first: {}", if remove_external { "removed" } else { "present" }, if damaged_id.is_some() { ", one embedded pack altered" } else { "" }, diffs.len(), diffs[0]),
                    json!({"diffs": diffs.iter().take(5).collect::<Vec<_>>()}),
                );
                return;
            }
        }
        out.obs.add("scenarios", scn);
        out.nontrivial = true;
    });
    if let Err(p) = r {
        if p.in_harness() {
            out.inconclusive(format!("harness panic {}:{} {}", p.file, p.line, p.msg));
        } else {
            out.violate_panic("C11", "scenario", "loose", &p);
        }
    }
    out
}

pub fn run(desc: &Value, ctx: &Ctx) -> CaseOut {
    if jstr(desc, "mode") == "loose" {
        return run_loose(desc, ctx);
    }
    let mut out = CaseOut::new();
    let case = ContCase::from_json(desc.get("case").unwrap());
    let mut rng = Rng::new(ju64(desc, "scn_seed"));
    let scratch = Scratch::new(&ctx.work, "c11");
    let mut fp = Fp::new();
    fp.s(case.pkg.as_str()).u(case.extra.len() as u64).u(ju64(desc, "scn_seed"));
    out.fp = fp.hex();
    observe_cont(&case, &mut out);
    let r = util::catch(|| {
        let origin = scratch.path("origin");
        std::fs::create_dir_all(&origin).unwrap();
        let subdir = jbool(desc, "subdir");
        let created = match create_container_ex(&case, &origin, "c.jbk", &if subdir { origin.join("packs") } else { origin.clone() }, Arc::new(())) {
            Ok(c) => c,
            Err(e) => return out.inconclusive(format!("creation failed (C01/C02's concern): {e}")),
        };
        // a second, independent creation of the same logical container: its packs are valid but have other uuids
        let foreign_dir = scratch.path("foreign");
        std::fs::create_dir_all(&foreign_dir).unwrap();
        let foreign = match create_container_ex(&case, &foreign_dir, "c.jbk", &if subdir { foreign_dir.join("packs") } else { foreign_dir.clone() }, Arc::new(())) {
            Ok(c) => c,
            Err(e) => return out.inconclusive(format!("second creation failed: {e}")),
        };
        // manifest's description of every pack, from the independent decoder
        let views = decode_files(&created.files);
        let mut infos: BTreeMap<u16, String> = BTreeMap::new();
        let mut file_of: BTreeMap<u16, PathBuf> = BTreeMap::new();
        for (_, v) in &views {
            if let Some(PackBody::Manifest { infos: mi }) = v.manifest_pack().map(|p| &p.body) {
                for i in mi {
                    infos.insert(i.id, format!("uuid={} size={} id={} kind={} group={} loc={}", uuid::Uuid::from_bytes(i.uuid), i.size, i.id, kind_name(i.kind), i.group, i.location));
                    if i.kind == b'c' {
                        file_of.insert(i.id, origin.join(&i.location));
                    }
                }
            }
        }
        let n_packs = 1 + case.extra.len();
        if file_of.len() != n_packs {
            return out.inconclusive(format!("decoder found {} content pack descriptions, expected {n_packs}", file_of.len()));
        }
        let plan = plan_for(&case, Some(&created));
        let pristine_expected = expected_dump(&case, &created, &plan);
        let ids: Vec<u16> = file_of.keys().cloned().collect();
        let modes = ["removed", "directory", "foreign-pack", "inside-container"];
        let subsets: Vec<u32> = (0..(1u32 << n_packs)).collect();
        let mut scn = 0u64;
        for subset in subsets {
            let mut mode_list: Vec<&str> = if subset == 0 { vec!["none"] } else if ctx.tier == Tier::Thorough { modes.to_vec() } else { vec![modes[rng.usize_below(3)], "inside-container"] };
            // extras in `packs/`: the directory itself replaced by a regular file (looking a pack up then fails with "not a
            // directory" rather than "no such file": the pack is just as unavailable)
            if subdir && ids.iter().enumerate().any(|(bit, id)| subset & (1 << bit) != 0 && *id >= 2) {
                mode_list.push("parent-is-a-file");
            }
            for mode in mode_list {
                let dir = scratch.path(&format!("s{subset}-{mode}"));
                copy_dir(&origin, &dir);
                let mut unavailable: Vec<u16> = vec![];
                for (bit, id) in ids.iter().enumerate() {
                    if subset & (1 << bit) == 0 {
                        continue;
                    }
                    let rel = file_of[id].strip_prefix(&origin).unwrap_or(&file_of[id]).to_path_buf();
                    let f = dir.join(&rel);
                    match mode {
                        "parent-is-a-file" => {
                            if *id >= 2 {
                                // handled once below for the whole directory
                            } else {
                                std::fs::remove_file(&f).unwrap();
                                unavailable.push(*id);
                            }
                        }
                        "removed" => {
                            std::fs::remove_file(&f).unwrap();
                            unavailable.push(*id);
                        }
                        "directory" => {
                            std::fs::remove_file(&f).unwrap();
                            std::fs::create_dir(&f).unwrap();
                            unavailable.push(*id);
                        }
                        "foreign-pack" => {
                            // a different valid pack (same logical content, other uuid) at the recorded location
                            let src = foreign_dir.join(&rel);
                            std::fs::copy(&src, &f).unwrap();
                            unavailable.push(*id);
                        }
                        _ => {
                            // the right pack, wrapped once more inside a container file at the recorded location: still available
                            let tmp = dir.join("wrap.tmp");
                            let up = camino::Utf8PathBuf::from_path_buf(tmp.clone()).unwrap();
                            jubako::tools::concat(&[f.clone()], &up).unwrap();
                            std::fs::rename(&tmp, &f).unwrap();
                        }
                    }
                }
                if mode == "parent-is-a-file" {
                    std::fs::remove_dir_all(dir.join("packs")).unwrap();
                    std::fs::write(dir.join("packs"), b"not a directory").unwrap();
                    for id in ids.iter().filter(|i| **i >= 2) {
                        unavailable.push(*id);
                    }
                }
                // optionally damage one present pack: check() must notice
                let present: Vec<u16> = ids.iter().filter(|i| !unavailable.contains(i)).cloned().collect();
                let damage = !present.is_empty() && mode != "inside-container" && rng.chance(1, 2);
                let mut damaged_id: Option<u16> = None;
                if damage {
                    let id = *rng.pick(&present);
                    damaged_id = Some(id);
                    let f = dir.join(file_of[&id].strip_prefix(&origin).unwrap_or(&file_of[&id]));
                    let mut bytes = std::fs::read(&f).unwrap();
                    let view = indep::decode_file(&bytes);
                    // flip one byte of raw/compressed cluster data or a table of the content pack
                    let spans: Vec<_> = view.spans.iter().filter(|s| s.covered && s.pack != usize::MAX && s.name != "pack body (covered)" && s.name != "pack header" && matches!(view.packs.get(s.pack).map(|p| &p.body), Some(PackBody::Content { .. })) && s.end > s.start).collect();
                    if let Some(s) = spans.get(rng.usize_below(spans.len().max(1))) {
                        let pos = s.start + rng.below(s.end - s.start);
                        bytes[pos as usize] ^= 0x40;
                        std::fs::write(&f, &bytes).unwrap();
                    }
                }
                let mut plan2 = plan.clone();
                plan2.checks = true;
                plan2.reverse = scn % 2 == 1;
                if let Some(d) = damaged_id {
                    // reading the contents of a damaged pack is C05/C06's subject, not this property's
                    plan2.addrs.retain(|(p, _)| *p != d);
                }
                let got = dump_container(&dir.join("c.jbk"), &plan2);
                scn += 1;
                out.obs.inc(&format!("scenario.{mode}"));
                out.obs.add("packs_unavailable", unavailable.len() as u64);
                if damage {
                    out.obs.inc("scenarios_with_damaged_present_pack");
                }
                // expected dump: pristine, with the contents of unavailable packs reported MISSING(info)
                let mut exp = pristine_expected.clone();
                for (k, v) in exp.iter_mut() {
                    if let Some(rest) = k.strip_prefix("content/") {
                        let pack: u16 = rest.split('/').next().unwrap().parse().unwrap();
                        if unavailable.contains(&pack) {
                            *v = format!("ok:missing:{}", infos[&pack]);
                        }
                    }
                }
                exp.retain(|k, _| {
                    if k.ends_with("/bytes") || k.ends_with("/streamed") {
                        let pack: u16 = k.split('/').nth(1).unwrap().parse().unwrap();
                        return !unavailable.contains(&pack);
                    }
                    true
                });
                for id in &unavailable {
                    exp.remove(&format!("check/pack/{id}"));
                    // the pack's own header cannot be read; what the manifest records for it still is
                    exp.remove(&format!("pack/{id}/free"));
                }
                if let Some(id) = damaged_id {
                    // (a damaged pack may not open at all: its own header is C05's subject)
                    exp.remove(&format!("pack/{id}/free"));
                }
                let structural = |k: &str| !k.starts_with("check/");
                let mut diffs = if damage {
                    // bytes of the damaged pack may differ (that is C04/C05's subject); judge structure of the others
                    diff(&exp, &got, |k| structural(k) && !k.starts_with("content/"))
                } else {
                    diff(&exp, &got, structural)
                };
                // get_pack of every id: FOUND / MISSING(info) / None
                for id in &plan.pack_ids {
                    let g = got.get(&format!("pack/{id}")).cloned().unwrap_or_default();
                    if Some(*id) == damaged_id && g.starts_with("err:") {
                        continue;
                    }
                    let want_prefix = if *id == 0 || !ids.contains(id) {
                        "ok:none".to_string()
                    } else if unavailable.contains(id) {
                        format!("ok:missing:{}", infos[id])
                    } else {
                        "ok:found:".to_string()
                    };
                    if !g.starts_with(&want_prefix) {
                        diffs.push(format!("pack/{id}: {g} (expected {want_prefix}…)"));
                    }
                }
                // check clause
                let chk = got.get("check/container").cloned().unwrap_or_default();
                if damage {
                    if chk == "ok:true" {
                        diffs.push("check/container: ok:true although a present pack was altered".into());
                    }
                } else if chk != "ok:true" {
                    diffs.push(format!("check/container: {chk} (expected ok:true: all present packs are intact)"));
                }
                if !diffs.is_empty() {
                    let item = diffs[0].split(':').next().unwrap_or("").split('/').next().unwrap_or("").to_string();
                    let outcome = if diffs[0].contains(" err:") { "err" } else if diffs[0].contains(" panic:") { "panic" } else { "differs" };
                    out.violate(
                        json!({"kind": "missing-pack", "mode": mode, "item": item, "outcome": outcome, "damaged": damage, "profile": profile()}),
                        format!("C11: {} of {n_packs} content packs unavailable ({mode}, ids {unavailable:?}){}: {} item(s) wrong; first: {}", unavailable.len(), if damage { ", one present pack damaged" } else { "" }, diffs.len(), diffs[0]),
                        json!({"diffs": diffs.iter().take(5).collect::<Vec<_>>()}),
                    );
                    if out.viols.len() >= 4 {
                        return;
                    }
                }
                let _ = std::fs::remove_dir_all(&dir);
            }
        }
        out.obs.add("scenarios", scn);
        out.nontrivial = scn > 1;
        let _ = foreign;
    });
    if let Err(p) = r {
        if p.in_harness() {
            out.inconclusive(format!("harness panic {}:{} {}", p.file, p.line, p.msg));
        } else {
            out.violate_panic("C11", "scenario", "driver", &p);
        }
    }
    out
}
