//! C02 — entries read back with exactly the property values they were written with.
//! Also hosts the shared verification of a directory pack against its model (used by C03, C15, C10…).

use crate::dirs::*;
use crate::proto::*;
use crate::rng::Rng;
use crate::util::{self, Scratch};
use jubako as jbk;
use jubako::reader::Range as _;
use serde_json::{json, Value};
use std::sync::Arc;

pub fn count(tier: Tier) -> u64 {
    tier.pick(320, 9000)
}

fn pick_n(rng: &mut Rng, tier: Tier, k: u64) -> usize {
    if tier == Tier::Thorough && k % 97 == 5 {
        return *rng.pick(&[5000usize, 20_000, 65_535, 65_536, 65_537]);
    }
    if k % 61 == 7 {
        return *rng.pick(&[1000usize, 3000]);
    }
    match rng.below(10) {
        0 => 0,
        1 => 1,
        2 => 2,
        3 => *rng.pick(&[255usize, 256, 257]),
        4 | 5 => rng.range(3, 20) as usize,
        _ => rng.range(20, 220) as usize,
    }
}

fn pick_prop(rng: &mut Rng, name: String, nv: usize, allow_const: bool) -> PDef {
    let constant = allow_const && rng.chance(1, 7);
    match rng.below(10) {
        0 | 1 | 2 => PDef {
            name,
            kind: PKind::UInt,
            col: if constant {
                Col::Const
            } else {
                match rng.below(4) {
                    0 => Col::Small,
                    1 => Col::Full,
                    2 => Col::Seq,
                    _ => Col::Width(rng.range(1, 8) as u8),
                }
            },
        },
        3 | 4 => PDef {
            name,
            kind: PKind::SInt,
            col: if constant {
                Col::Const
            } else {
                match rng.below(4) {
                    0 => Col::Small,
                    1 => Col::Full,
                    2 => Col::Seq,
                    _ => Col::Width(rng.range(1, 8) as u8),
                }
            },
        },
        5 | 6 | 7 if nv > 0 => {
            let prefix = match rng.below(6) {
                0 => 0,
                1 => 1,
                2 => 2,
                3 => 3,
                4 => 31,
                _ => rng.range(0, 31) as u8,
            };
            PDef {
                name,
                kind: PKind::Array { prefix, store: rng.usize_below(nv) },
                col: if constant {
                    Col::Const
                } else {
                    match rng.below(6) {
                        0 => Col::ArrAroundPrefix,
                        1 => Col::ArrLen256,
                        2 => Col::Arr { max: 6, alpha: 2 },
                        3 => Col::Arr { max: 12, alpha: 4 },
                        4 => Col::Arr { max: 300, alpha: 0 },
                        _ => Col::Arr { max: 40, alpha: 0 },
                    }
                },
            }
        }
        _ => PDef {
            name,
            kind: PKind::Content,
            col: if constant {
                // one pack id for the whole column (stored as a default), of one or two bytes
                Col::Content { packs: 0, maxid: *rng.pick(&[1u32, 255, 256, 300, 65_535]) }
            } else {
                match rng.below(5) {
                    0 => Col::Content { packs: 1, maxid: 200 },
                    1 => Col::Content { packs: 3, maxid: 70_000 },
                    2 => Col::Content { packs: 250, maxid: 1 << 24 },
                    3 => Col::Content { packs: 1, maxid: u32::MAX },
                    _ => Col::Content { packs: 2, maxid: 256 },
                }
            },
        },
    }
}

fn pick_name(rng: &mut Rng, i: usize) -> String {
    match rng.below(12) {
        0 => format!("p{i}_{}", "x".repeat(rng.range(1, 180) as usize)),
        1 => format!("é{i}ñ"),
        2 => format!("{i}"),
        _ => format!("p{i}"),
    }
}

pub fn gen_windows(rng: &mut Rng, nstores: usize, ns: &[usize]) -> Vec<IndexDef> {
    let mut indexes = vec![];
    let nidx = rng.range(1, 3) as usize;
    for i in 0..nidx {
        let store = rng.usize_below(nstores);
        let n = ns[store] as u32;
        let (offset, count) = match rng.below(7) {
            0 | 1 | 2 => (0, n),
            3 if n >= 1 => (0, n - 1),
            4 if n >= 1 => (1, n - 1),
            5 => (n, 0),
            _ if n >= 2 => {
                let o = rng.below(n as u64) as u32;
                (o, rng.below((n - o) as u64 + 1) as u32)
            }
            _ => (0, n),
        };
        indexes.push(IndexDef { name: format!("index{i}"), store, offset, count });
    }
    indexes
}

/// Representability limits, driven on purpose. The classification comes from the model: the size field of a
/// sized offset holds 16 bits (a tail of more than 65535 bytes cannot be described), the key count of an entry
/// store 8 bits. Cases are chosen clearly on one side of each limit.
fn gen_limit(seed: u64, which: u64) -> Value {
    let mut rng = Rng::keyed(seed, "C02-limit", which);
    if which % 8 >= 5 {
        // exact boundary of the tail-size field: 255 unsigned properties (distinct values, no default) whose names are
        // sized so that the entry store tail is exactly 65535 / 65536 / 65537 bytes:
        // tail = 10 + sum over properties of (1 type byte + 1 length byte + name length)
        let target: usize = [65_535usize, 65_536, 65_537][(which % 8 - 5) as usize];
        let nprops = 255usize;
        let mut left = target - 10 - 2 * nprops;
        let mut common = vec![];
        for i in 0..nprops {
            let remaining = nprops - i;
            let len = (left / remaining).max(4).min(255);
            let len = if i == nprops - 1 { left } else { len };
            left -= len;
            let mut name = format!("{i:03}");
            name.push_str(&"q".repeat(len - 3));
            common.push(PDef { name, kind: PKind::UInt, col: Col::Seq });
        }
        let st = StoreDef { n: 3, common, variants: vec![], sort: None, unique_keys: false };
        let case = DirCase { seed: rng.next(), vstores: vec![], stores: vec![st], indexes: vec![IndexDef { name: "index0".into(), store: 0, offset: 0, count: 3 }], defer: 0, free: 0 };
        let mut v = case.to_json();
        v["via"] = json!("mem");
        v["expect"] = json!(if target > 65_535 { "unrepresentable" } else { "representable" });
        v["exact_tail"] = json!(target);
        v["limit"] = json!(format!("entry store tail of exactly {target} bytes"));
        return v;
    }
    if which % 8 == 4 {
        // an array one byte longer than an array length can say (0x1000000 bytes), in a plain or an indexed value store
        let st = StoreDef {
            n: 3,
            common: vec![PDef { name: "big".into(), kind: PKind::Array { prefix: *rng.pick(&[0u8, 1, 4]), store: 0 }, col: Col::ArrHuge }, PDef { name: "id".into(), kind: PKind::UInt, col: Col::Seq }],
            variants: vec![],
            sort: None,
            unique_keys: false,
        };
        // (kept whole in an indexed store, prefix 0, such an array needs no length and is representable)
        let indexed = rng.chance(1, 2);
        let by_key_only = indexed && matches!(st.common[0].kind, PKind::Array { prefix: 0, .. });
        let case = DirCase { seed: rng.next(), vstores: vec![indexed], stores: vec![st], indexes: vec![IndexDef { name: "index0".into(), store: 0, offset: 0, count: 3 }], defer: 0, free: 0 };
        let mut v = case.to_json();
        v["via"] = json!("mem");
        v["expect"] = json!(if by_key_only { "representable" } else { "unrepresentable" });
        v["limit"] = json!("array of 0x1000000 bytes");
        return v;
    }
    let (case, expect, why) = match which % 4 {
        0 | 1 => {
            // indexed value store with n distinct 9-byte values: tail = 10 + w + w*(n-1) bytes, w = 3 for these sizes
            let n = if which % 4 == 0 { 24_000 } else { 18_000 };
            let st = StoreDef {
                n,
                // (the representable one ends on duplicates of earlier values: the store then holds n - n/16 distinct values)
                common: vec![PDef { name: "v".into(), kind: PKind::Array { prefix: 0, store: 0 }, col: if which % 4 == 0 { Col::Seq } else { Col::SeqDup } }, PDef { name: "id".into(), kind: PKind::UInt, col: Col::Seq }],
                variants: vec![],
                sort: None,
                unique_keys: false,
            };
            let distinct = if which % 4 == 0 { n } else { n - n / 16 };
            let tail = 10 + 3 + 3 * (distinct - 1);
            (
                DirCase { seed: rng.next(), vstores: vec![true], stores: vec![st], indexes: vec![IndexDef { name: "index0".into(), store: 0, offset: 0, count: n as u32 }], defer: 0, free: 0 },
                if tail > 65535 { "unrepresentable" } else { "representable" },
                format!("indexed value store tail of {tail} bytes"),
            )
        }
        _ => {
            // many properties with long names: key count and entry-store tail size
            let nprops = if which % 4 == 2 { 300 } else { 250 };
            let common: Vec<PDef> = (0..nprops).map(|i| PDef { name: format!("p{i:03}_{}", "n".repeat(190)), kind: PKind::UInt, col: Col::Small }).collect();
            let st = StoreDef { n: 3, common, variants: vec![], sort: None, unique_keys: false };
            let tail = 10 + nprops * (1 + 1 + 195);
            (
                DirCase { seed: rng.next(), vstores: vec![], stores: vec![st], indexes: vec![IndexDef { name: "index0".into(), store: 0, offset: 0, count: 3 }], defer: 0, free: 0 },
                if nprops > 255 || tail > 65535 { "unrepresentable" } else { "representable" },
                format!("{nprops} key infos, entry store tail of about {tail} bytes"),
            )
        }
    };
    let mut v = case.to_json();
    v["via"] = json!("mem");
    v["expect"] = json!(expect);
    v["limit"] = json!(why);
    v
}

pub fn gen(seed: u64, tier: Tier, k: u64) -> Value {
    if (tier == Tier::Quick && (4..12).contains(&k)) || (tier == Tier::Thorough && k % 150 < 8) {
        // which % 8: 0..3 = clearly over / under the limits, 4 = (same as 0), 5..7 = exact boundary 65535 / 65536 / 65537
        return gen_limit(seed, (k % 150) % 8 + if tier == Tier::Quick { 0 } else { 8 * (k / 150) });
    }
    if (tier == Tier::Quick && (12..24).contains(&k)) || (tier == Tier::Thorough && (8..40).contains(&(k % 150))) {
        // very small value stores whose total size crosses a power of 256 (256, 65536) inside their last value: the width of
        // the offsets and of the data size in the store's tail are decided by different quantities
        let mut rng = Rng::keyed(seed, "C02-small-stores", k);
        let indexed = k % 2 == 0;
        let n = rng.range(2, 4) as usize;
        let col = if k % 3 == 0 { Col::ArrLong } else { Col::ArrLen256 };
        let st = StoreDef {
            n,
            common: vec![PDef { name: "v".into(), kind: PKind::Array { prefix: *rng.pick(&[0u8, 0, 2, 5]), store: 0 }, col }, PDef { name: "id".into(), kind: PKind::UInt, col: Col::Seq }],
            variants: vec![],
            sort: None,
            unique_keys: false,
        };
        let case = DirCase { seed: rng.next(), vstores: vec![indexed], stores: vec![st], indexes: vec![IndexDef { name: "index0".into(), store: 0, offset: 0, count: n as u32 }], defer: 0, free: 0 };
        let mut v = case.to_json();
        v["via"] = json!(if rng.chance(1, 2) { "file" } else { "mem" });
        return v;
    }
    let mut rng = Rng::keyed(seed, "C02", k);
    let nv = rng.range(0, 3) as usize;
    let vstores: Vec<bool> = (0..nv).map(|_| rng.chance(1, 2)).collect();
    let nstores = if rng.chance(1, 6) { 2 } else { 1 };
    let mut stores = vec![];
    let mut pi = 0usize;
    for _ in 0..nstores {
        let n = pick_n(&mut rng, tier, k);
        let ncommon = match rng.below(8) {
            0 => 0,
            1 => 1,
            _ => rng.range(1, 6),
        } as usize;
        let mut common = vec![];
        for _ in 0..ncommon {
            let nm = pick_name(&mut rng, pi);
            common.push(pick_prop(&mut rng, nm, nv, true));
            pi += 1;
        }
        let nvar = if rng.chance(2, 5) { rng.range(1, 4) as usize } else { 0 };
        let mut variants = vec![];
        for vi in 0..nvar {
            let np = match rng.below(6) {
                0 => 0,
                _ => rng.range(1, 4),
            } as usize;
            let mut props = vec![];
            for _ in 0..np {
                let nm = pick_name(&mut rng, pi);
                props.push(pick_prop(&mut rng, nm, nv, true));
                pi += 1;
            }
            variants.push(VariantDef { name: format!("V{vi}"), props });
        }
        if common.is_empty() && variants.is_empty() {
            let nm = pick_name(&mut rng, pi);
            common.push(pick_prop(&mut rng, nm, nv, false));
            pi += 1;
        }
        stores.push(StoreDef { n, common, variants, sort: None, unique_keys: false });
    }
    let ns: Vec<usize> = stores.iter().map(|s| s.n).collect();
    let indexes = gen_windows(&mut rng, nstores, &ns);
    // integers handed over as immediate values, deferred words, or a per-entry mix of both
    let defer = *rng.pick(&[0u8, 0, 1, 1, 2]);
    // free data of the indexes (and of the directory pack when it is created bare): zero, or arbitrary bytes
    let free = if rng.chance(1, 2) { rng.next() | 1 } else { 0 };
    let case = DirCase { seed: rng.next(), vstores, stores, indexes, defer, free };
    let mut v = case.to_json();
    v["via"] = json!(if rng.chance(1, 2) { "file" } else { "mem" });
    v
}

/// Open a bare directory pack (file or memory) for reading.
pub fn open_dir_file(path: &std::path::Path) -> Result<Arc<jbk::reader::DirectoryPack>, String> {
    let reader: jbk::Reader = jbk::FileSource::open(path).map_err(|e| format!("open: {e}"))?.into();
    Ok(Arc::new(jbk::reader::DirectoryPack::new(reader).map_err(|e| format!("DirectoryPack::new: {e}"))?))
}

pub fn open_dir_mem(bytes: Vec<u8>) -> Result<Arc<jbk::reader::DirectoryPack>, String> {
    let reader: jbk::Reader = bytes.into();
    Ok(Arc::new(jbk::reader::DirectoryPack::new(reader).map_err(|e| format!("DirectoryPack::new: {e}"))?))
}

pub struct VerifyOpts {
    pub prop: &'static str,
    /// check the handles returned by add_entry against final positions (C15)
    pub handles: bool,
}

/// Compare everything the reader returns for `pack` with the model. Violations go to `out`.
pub fn verify_dir(case: &DirCase, inst: &Installed, pack: &Arc<jbk::reader::DirectoryPack>, out: &mut CaseOut, opts: &VerifyOpts) {
    let prop = opts.prop;
    let entry_storage = pack.create_entry_storage();
    let value_storage = pack.create_value_storage();
    // final orders and inverse maps per store
    let orders: Vec<Vec<usize>> = case.stores.iter().enumerate().map(|(si, st)| final_order(st, &inst.models[si])).collect();
    let inverse: Vec<Vec<usize>> = orders
        .iter()
        .map(|o| {
            let mut inv = vec![0usize; o.len()];
            for (pos, e) in o.iter().enumerate() {
                inv[*e] = pos;
            }
            inv
        })
        .collect();
    macro_rules! bad {
        ($kind:expr, $what:expr, $detail:expr) => {{
            out.violate(json!({"kind": $kind, "profile": profile()}), format!("{prop}: {}", $what), $detail);
            if out.viols.len() >= 6 {
                return;
            }
        }};
        ($kind:expr, $msg:expr, $what:expr, $detail:expr) => {{
            out.violate(
                json!({"kind": $kind, "message": util::normalize_msg(&$msg), "profile": profile()}),
                format!("{prop}: {}", $what),
                $detail,
            );
            if out.viols.len() >= 6 {
                return;
            }
        }};
    }
    // the directory pack's free data (every caller creates the pack bare, with the case's free data)
    let want_free = pack_free(case.free, "directory");
    if pack.get_free_data() != &want_free[..] {
        bad!("free-data", format!("DirectoryPack::get_free_data() = {} but {} was given", util::brief(pack.get_free_data()), util::brief(&want_free)), json!({}));
    }
    // indexes by number: created in the order of the case
    for (n, ix) in case.indexes.iter().enumerate() {
        match pack.get_index((n as u32).into()) {
            Ok(i) => {
                if (i.offset().into_u32(), i.count().into_u32(), i.get_store_id().into_u32() as usize) != (ix.offset, ix.count, ix.store) {
                    bad!("index-by-number", format!("get_index({n}) exposes offset {} count {} store {}, index {} was declared {} {} {}", i.offset().into_u32(), i.count().into_u32(), i.get_store_id().into_u32(), ix.name, ix.offset, ix.count, ix.store), json!({}));
                }
            }
            Err(e) => {
                let e = e.to_string();
                bad!("read-error", e, format!("get_index({n}): {e}"), json!({"api": "get_index"}));
            }
        }
    }
    for ix in &case.indexes {
        let index = match pack.get_index_from_name(&ix.name) {
            Ok(Some(i)) => i,
            Ok(None) => {
                bad!("index-missing", format!("index {} not found", ix.name), json!({}));
                continue;
            }
            Err(e) => {
                let e = e.to_string();
                bad!("read-error", e, format!("get_index_from_name({}): {e}", ix.name), json!({"api": "get_index"}));
                continue;
            }
        };
        if index.count().into_u32() != ix.count || index.offset().into_u32() != ix.offset {
            bad!(
                "index-window",
                format!("index {} exposes offset {} count {}, declared {} {}", ix.name, index.offset().into_u32(), index.count().into_u32(), ix.offset, ix.count),
                json!({})
            );
            continue;
        }
        if index.size().into_u32() != ix.count || index.is_empty() != (ix.count == 0) {
            bad!("index-window", format!("index {}: size() {} / is_empty() {} for a declared count of {}", ix.name, index.size().into_u32(), index.is_empty(), ix.count), json!({}));
            continue;
        }
        if index.get_store_id().into_u32() as usize != ix.store {
            bad!("index-store", format!("index {} names entry store {}, declared on store {}", ix.name, index.get_store_id().into_u32(), ix.store), json!({}));
            continue;
        }
        let store = match index.get_store(&entry_storage) {
            Ok(s) => s,
            Err(e) => {
                let e = e.to_string();
                bad!("read-error", e, format!("opening the entry store of index {}: {e}", ix.name), json!({"api": "get_store", "schema": schema_class(&case.stores[ix.store])}));
                continue;
            }
        };
        let builder = match jbk::reader::builder::AnyBuilder::new(store.clone(), value_storage.as_ref()) {
            Ok(b) => b,
            Err(e) => {
                let e = e.to_string();
                bad!("read-error", e, format!("building the entry builder of index {}: {e}", ix.name), json!({"api": "builder"}));
                continue;
            }
        };
        let st = &case.stores[ix.store];
        let model = &inst.models[ix.store];
        let vnames = variant_names(&store);
        // the variant names of the layout must be the declared ones
        let mut declared: Vec<String> = st.variants.iter().map(|v| v.name.clone()).collect();
        declared.sort();
        let mut got = vnames.clone();
        got.sort();
        if declared != got {
            bad!("variant-names", format!("store variants {got:?} != declared {declared:?}"), json!({}));
        }
        let all_names: Vec<String> = st.common.iter().chain(st.variants.iter().flat_map(|v| v.props.iter())).map(|p| p.name.clone()).collect();
        for i in 0..ix.count {
            let pos = (ix.offset + i) as usize;
            let e = orders[ix.store][pos];
            let em = &model[e];
            let entry = match index.get_entry(&builder, jbk::EntryIdx::from(i)) {
                Ok(Some(en)) => en,
                Ok(None) => {
                    bad!("entry-missing", format!("index {} entry {i} (< count {}) answers None", ix.name, ix.count), json!({}));
                    continue;
                }
                Err(e) => {
                    let e = e.to_string();
                    bad!("read-error", e, format!("get_entry({i}): {e}"), json!({"api": "get_entry"}));
                    continue;
                }
            };
            let re = match read_entry(&entry, &vnames, &all_names) {
                Ok(r) => r,
                Err(e) => {
                    bad!("read-error", e, format!("index {} entry {i}: {e}", ix.name), json!({"api": "get_value"}));
                    continue;
                }
            };
            out.obs.inc("entries_compared");
            let exp_variant = em.variant.map(|v| st.variants[v].name.clone());
            if re.variant != exp_variant {
                bad!("variant", format!("index {} entry {i}: variant {:?}, written as {:?}", ix.name, re.variant, exp_variant), json!({}));
            }
            for (name, v) in &em.vals {
                let expected = match v {
                    Val::Ref(t) => resolved_ref(st, name, inverse[ix.store][*t]),
                    Val::RefO(ts, t) => Val::U(inverse[*ts][*t] as u64),
                    other => other.clone(),
                };
                // the same value through the typed property builders (every entry of small windows, a sample of big ones)
                if ix.count <= 300 || i % 17 == 0 {
                    match typed_read(&store, value_storage.as_ref(), jbk::EntryIdx::from(ix.offset + i), exp_variant.as_deref(), name) {
                        Ok(Some(t)) if t == expected => out.obs.inc("values_compared_through_typed_builders"),
                        Ok(Some(t)) => {
                            bad!("typed-value", format!("index {} entry {i} property {name}: the typed property builder reads {} but {} was written", ix.name, t.brief(), expected.brief()), json!({}));
                        }
                        Ok(None) => {
                            bad!("typed-value", format!("index {} entry {i} property {name}: no typed property builder accepts it", ix.name), json!({}));
                        }
                        Err(e) => {
                            bad!("read-error", e, format!("index {} entry {i} property {name} through a typed builder: {e}", ix.name), json!({"api": "typed-builder"}));
                        }
                    }
                }
                match re.vals.get(name) {
                    Some(got) if *got == expected => {
                        out.obs.inc("values_compared");
                    }
                    Some(got) => {
                        let kind = value_kind(v);
                        out.violate(
                            json!({"kind": "value", "type": kind, "class": mismatch_class(&expected, got), "profile": profile()}),
                            format!("{prop}: index {} entry {i} property {name}: read {} but {} was written", ix.name, got.brief(), expected.brief()),
                            json!({"property": name, "entry": i, "store_entries": st.n}),
                        );
                        if out.viols.len() >= 6 {
                            return;
                        }
                    }
                    None => {
                        bad!("value-absent", format!("index {} entry {i}: property {name} answers None", ix.name), json!({}));
                    }
                }
            }
            // properties of other variants must answer None
            for name in &all_names {
                if !em.vals.contains_key(name) && re.vals.contains_key(name) {
                    bad!("foreign-property", format!("index {} entry {i}: property {name} of another variant answers {}", ix.name, re.vals[name].brief()), json!({}));
                }
            }
        }
        // nothing beyond the window
        for probe in [ix.count, ix.count + 1, u32::MAX - 1] {
            match index.get_entry(&builder, jbk::EntryIdx::from(probe)) {
                Ok(None) => out.obs.inc("past_window_probes"),
                Ok(Some(_)) => {
                    bad!("past-window", format!("index {} (count {}) returns an entry for id {probe}", ix.name, ix.count), json!({"probe_minus_count": probe.wrapping_sub(ix.count).min(2)}));
                }
                Err(e) => {
                    let e = e.to_string();
                    bad!("past-window-error", e, format!("index {} id {probe} >= count: {e}", ix.name), json!({}));
                }
            }
        }
        // the index converted to a plain range (`EntryRange::from(&index)`) is the same window: same bounds, same entries at its
        // first, middle and last position, nothing at `count`
        let range = jbk::EntryRange::from(&index);
        if range.count().into_u32() != ix.count || range.offset().into_u32() != ix.offset {
            bad!(
                "converted-range-window",
                format!("index {} (offset {} count {}) converted to an EntryRange exposes offset {} count {}", ix.name, ix.offset, ix.count, range.offset().into_u32(), range.count().into_u32()),
                json!({"offset_is_zero": ix.offset == 0})
            );
        } else {
            let mut at: Vec<u32> = vec![];
            if ix.count > 0 {
                at.extend([0, ix.count / 2, ix.count - 1]);
            }
            for i in at {
                let a = index.get_entry(&builder, jbk::EntryIdx::from(i));
                let b = range.get_entry(&builder, jbk::EntryIdx::from(i));
                let ra = a.map_err(|e| e.to_string()).and_then(|e| e.ok_or("None".to_string())).and_then(|e| read_entry(&e, &vnames, &all_names));
                let rb = b.map_err(|e| e.to_string()).and_then(|e| e.ok_or("None".to_string())).and_then(|e| read_entry(&e, &vnames, &all_names));
                match (ra, rb) {
                    (Ok(x), Ok(y)) if x.variant == y.variant && x.vals == y.vals => out.obs.inc("entries_compared_through_converted_range"),
                    (Ok(_), Ok(_)) => {
                        bad!("converted-range-entry", format!("index {} entry {i}: the EntryRange converted from the index returns another entry", ix.name), json!({}));
                    }
                    (Ok(_), Err(e)) => {
                        bad!("converted-range-entry", format!("index {} entry {i}: the EntryRange converted from the index answers {e}", ix.name), json!({}));
                    }
                    _ => {}
                }
            }
            match range.get_entry(&builder, jbk::EntryIdx::from(ix.count)) {
                Ok(None) => out.obs.inc("past_window_probes"),
                Ok(Some(_)) => {
                    bad!("past-window", format!("the EntryRange converted from index {} (count {}) returns an entry for id {}", ix.name, ix.count, ix.count), json!({"probe_minus_count": 0}));
                }
                Err(_) => {}
            }
        }
    }
    if opts.handles {
        for (si, hs) in inst.handles.iter().enumerate() {
            for (e, h) in hs.iter().enumerate() {
                let got = h.get().into_u32() as usize;
                if got != inverse[si][e] {
                    bad!("handle", format!("store {si}: handle of entry #{e} reports position {got}, the entry is read back at {}", inverse[si][e]), json!({"sorted": case.stores[si].sort.is_some()}));
                }
                out.obs.inc("handles_compared");
            }
        }
    }
}

pub fn value_kind(v: &Val) -> &'static str {
    match v {
        Val::U(_) => "uint",
        Val::S(_) => "sint",
        Val::A(_) => "array",
        Val::C(..) => "content",
        Val::Ref(_) | Val::RefO(..) => "ref",
    }
}

/// coarse, stable description of how a read value differs (for signatures)
fn mismatch_class(exp: &Val, got: &Val) -> String {
    match (exp, got) {
        (Val::S(e), Val::S(g)) => {
            if (*e >= 0) != (*g >= 0) {
                "sign-flipped".into()
            } else {
                "other-value".into()
            }
        }
        (Val::U(_), Val::U(_)) => "other-value".into(),
        (Val::A(e), Val::A(g)) => {
            if e.len() != g.len() {
                "length".into()
            } else {
                "bytes".into()
            }
        }
        (Val::C(..), Val::C(..)) => "other-address".into(),
        _ => "type".into(),
    }
}

/// coarse description of a schema (for signatures of open/parse failures)
pub fn schema_class(st: &StoreDef) -> String {
    let empty_variants = st.variants.iter().filter(|v| v.props.is_empty()).count();
    let last_const = st.variants.iter().any(|v| v.props.last().map(|p| p.col == Col::Const).unwrap_or(false));
    format!(
        "variants={} empty_variants={} last_prop_constant={} n={}",
        st.variants.len().min(2),
        empty_variants.min(2),
        last_const,
        st.n.min(2)
    )
}

pub fn run(desc: &Value, ctx: &Ctx) -> CaseOut {
    run_dir_case(desc, ctx, &VerifyOpts { prop: "C02", handles: false })
}

pub fn run_dir_case(desc: &Value, ctx: &Ctx, opts: &VerifyOpts) -> CaseOut {
    let mut out = CaseOut::new();
    let case = DirCase::from_json(desc);
    observe(&case, &mut out);
    let via_file = jstr(desc, "via") == "file";
    let scratch = Scratch::new(&ctx.work, "dir");
    let path = scratch.path("d.jbkd");
    let class = if via_file { "file" } else { "mem" };
    out.obs.inc(&format!("cases.via.{class}"));
    let created = util::catch(|| {
        if via_file {
            create_bare(&case, &path).map(|i| (i, None))
        } else {
            create_mem(&case).map(|(i, b)| (i, Some(b)))
        }
    });
    // classification by the model (the generator's "expect" tag of the limit cases is only a label)
    let models: Vec<Vec<EntryModel>> = (0..case.stores.len()).map(|si| expand(&case, si)).collect();
    let (mut repr, mut repr_why) = representable(&case, &models);
    if let Some(t) = desc.get("exact_tail").and_then(|x| x.as_u64()) {
        // for these hand-sized schemas the tail length is known exactly
        repr = if t > 65_535 { Repr::No } else { Repr::Yes };
        repr_why = format!("entry store tail of exactly {t} bytes");
    }
    let unrepresentable = repr == Repr::No;
    if desc.get("expect").is_some() {
        out.obs.inc(&format!("limit_cases.{}", jstr(desc, "expect")));
        out.nontrivial = true;
    }
    if repr != Repr::Yes {
        out.obs.inc(&format!("model_says.{repr:?}"));
    }
    let (inst, bytes) = match created {
        Err(_) | Ok(Err(_)) if repr != Repr::Yes => {
            // a value that cannot be represented makes creation fail: the accepted outcome
            out.obs.inc("unrepresentable_inputs_refused");
            let _ = &repr_why;
            return out;
        }
        Err(p) => {
            out.violate_panic(opts.prop, "create", &dir_class(&case), &p);
            return out;
        }
        Ok(Err(e)) => {
            out.violate(
                json!({"kind": "create-error", "message": util::normalize_msg(&e), "profile": profile()}),
                format!("{}: creation of a representable directory failed: {e}", opts.prop),
                json!({}),
            );
            return out;
        }
        Ok(Ok(x)) => x,
    };
    let r = util::catch(|| {
        let pack = if let Some(b) = bytes { open_dir_mem(b) } else { open_dir_file(&path) };
        match pack {
            Err(e) => out.violate(
                json!({"kind": "open-error", "message": util::normalize_msg(&e), "profile": profile()}),
                format!("{}: a freshly created directory pack does not open: {e}", opts.prop),
                json!({}),
            ),
            Ok(pack) => verify_dir(&case, &inst, &pack, &mut out, opts),
        }
    });
    if let Err(p) = r {
        out.violate_panic(opts.prop, "read", &dir_class(&case), &p);
    }
    if unrepresentable {
        if out.verdict == Verdict::Violated {
            // accepted by the creator, then not read back exactly: "stored altered"
            let first = out.viols.first().map(|v| v.what.clone()).unwrap_or_default();
            out.viols.clear();
            out.violate(
                json!({"kind": "unrepresentable-accepted", "limit": util::normalize_msg(&repr_why), "profile": profile()}),
                format!("{}: an input that cannot be represented ({}) was accepted by the creator and is not read back as written: {first}", opts.prop, repr_why),
                json!({}),
            );
        } else {
            out.obs.inc("unrepresentable_by_model_but_round_trips");
        }
    }
    out
}

pub fn dir_class(case: &DirCase) -> String {
    case.stores.first().map(schema_class).unwrap_or_default()
}
