//! Logical dump of a container through the public reader API, item by item, and the dump the
//! model expects. Every accessor call is wrapped: an item is `ok:<value>`, `err:<message>` or
//! `panic:<site>:<message>`. Keys are stable paths, so dumps can be compared item-wise.

use crate::cont::{packinfo_free, ContCase, CreatedCont};
use crate::dirs::*;
use crate::util;
use jubako as jbk;
use jubako::reader::{Container, MayMissPack, Range as _};
use jubako::Pack as _;
use std::collections::BTreeMap;
use std::io::Read;
use std::path::Path;

pub type Dump = BTreeMap<String, String>;

#[derive(Clone, Debug)]
pub struct Plan {
    /// (index name, all property names of its store)
    pub indexes: Vec<(String, Vec<String>)>,
    /// content addresses to resolve
    pub addrs: Vec<(u16, u32)>,
    pub pack_ids: Vec<u16>,
    /// also read what the manifest records (its own free data, per-pack free data) through `tools::open_pack`, which
    /// opens pack files and container files but has no tail fallback (not for containers embedded after a prefix)
    pub manifest_free: bool,
    /// walk packs and contents from the highest pack id down (the extra packs are then looked up before the main pack)
    pub reverse: bool,
    /// ask the container and the directory pack to check themselves BEFORE anything else is read (and again at the end)
    pub checks_first: bool,
    /// also run the integrity checks
    pub checks: bool,
    /// hash content bytes (else only sizes)
    pub bytes: bool,
}

pub fn plan_for(case: &ContCase, created: Option<&CreatedCont>) -> Plan {
    let mut indexes = vec![];
    for ix in &case.dir.indexes {
        let st = &case.dir.stores[ix.store];
        let names = st.common.iter().chain(st.variants.iter().flat_map(|v| v.props.iter())).map(|p| p.name.clone()).collect();
        indexes.push((ix.name.clone(), names));
    }
    let mut addrs = vec![];
    let n_main = case.content.expected_count() as u32;
    match created {
        Some(c) => {
            for a in &c.addrs {
                addrs.push((a.pack_id.into_u16(), a.content_id.into_u32()));
            }
            for ea in &c.extra_addrs {
                for a in ea {
                    addrs.push((a.pack_id.into_u16(), a.content_id.into_u32()));
                }
            }
        }
        None => {
            for i in 0..n_main {
                addrs.push((case.pack_id(0), i));
            }
            for (e, ec) in case.extra.iter().enumerate() {
                for i in 0..ec.items.len() as u32 {
                    addrs.push((case.pack_id(e + 1), i));
                }
            }
        }
    }
    addrs.push((case.pack_id(0), n_main)); // past the count: None
    // unknown pack ids: one past the highest, and (when the ids are spread out) the holes between them
    let top = case.pack_id(case.extra.len());
    addrs.push((top + 1, 0));
    let used: Vec<u16> = (0..=case.extra.len()).map(|pi| case.pack_id(pi)).collect();
    for hole in (1..top).filter(|i| !used.contains(i)).take(3) {
        addrs.push((hole, 0));
    }
    addrs.sort();
    addrs.dedup();
    let pack_ids = (0..top + 2).collect();
    Plan { indexes, addrs, pack_ids, checks: true, bytes: true, manifest_free: true, reverse: false, checks_first: false }
}

fn val_str(v: &Val) -> String {
    match v {
        Val::U(x) => format!("u:{x}"),
        Val::S(x) => format!("s:{x}"),
        Val::A(a) => format!("a:{}", util::hex(a)),
        Val::C(p, c) => format!("c:{p}:{c}"),
        Val::Ref(r) => format!("ref:{r}"),
        Val::RefO(st, r) => format!("ref:{st}:{r}"),
    }
}

fn item<T>(d: &mut Dump, key: String, f: impl FnOnce() -> Result<T, String>, show: impl FnOnce(&T) -> String) -> Option<T> {
    match util::catch(f) {
        Ok(Ok(v)) => {
            d.insert(key, format!("ok:{}", show(&v)));
            Some(v)
        }
        Ok(Err(e)) => {
            d.insert(key, format!("err:{}", util::truncate(&e, 200)));
            None
        }
        Err(p) => {
            d.insert(key, format!("panic:{}:{}", p.site(), p.norm_msg()));
            None
        }
    }
}

pub fn pack_info_str(info: &jbk::reader::PackInfo) -> String {
    format!(
        "uuid={} size={} id={} kind={:?} group={} loc={}",
        info.uuid,
        info.pack_size.into_u64(),
        info.pack_id.into_u16(),
        info.pack_kind,
        info.pack_group,
        info.pack_location
    )
}

/// Dump everything `plan` names from the container whose entry point is `path`.
pub fn dump_container(path: &Path, plan: &Plan) -> Dump {
    dump_container_with(path, plan, None)
}

/// A locator that knows where each pack is by its uuid alone (an application-side catalogue): the recorded location is not
/// looked at.
pub struct UuidLocator(pub std::collections::HashMap<uuid::Uuid, std::path::PathBuf>);

impl jbk::reader::PackLocatorTrait for UuidLocator {
    fn locate(&self, uuid: uuid::Uuid, _helper: &str) -> jbk::Result<Option<jbk::Reader>> {
        Ok(match self.0.get(&uuid) {
            Some(p) if p.is_file() => Some(jbk::Reader::from(jbk::FileSource::open(p)?)),
            _ => None,
        })
    }
}

/// Same dump, the container opened with an application locator (`Container::new_with_locator`) when one is given.
pub fn dump_container_with(path: &Path, plan: &Plan, locator: Option<std::sync::Arc<dyn jbk::reader::PackLocatorTrait>>) -> Dump {
    let mut d = Dump::new();
    let opened = item(
        &mut d,
        "open".into(),
        || match &locator {
            Some(l) => Container::new_with_locator(path, l.clone()).map_err(|e| e.to_string()),
            None => Container::new(path).map_err(|e| e.to_string()),
        },
        |_| "opened".into(),
    );
    let container = match opened {
        Some(c) => c,
        None => {
            if plan.checks {
                file_check(&mut d, path);
            }
            return d;
        }
    };
    item(&mut d, "pack_count".into(), || Ok(container.pack_count().into_u16()), |v| v.to_string());
    let mut pack_ids = plan.pack_ids.clone();
    let mut addrs = plan.addrs.clone();
    if plan.reverse {
        pack_ids.reverse();
        addrs.reverse();
    }
    let plan = &Plan { indexes: plan.indexes.clone(), addrs, pack_ids, checks: plan.checks, bytes: plan.bytes, manifest_free: plan.manifest_free, reverse: plan.reverse, checks_first: plan.checks_first };
    if plan.checks_first {
        item(&mut d, "check/early/container".into(), || container.check().map_err(|e| e.to_string()), |v| v.to_string());
        item(&mut d, "check/early/directory_pack".into(), || container.get_directory_pack().check().map_err(|e| e.to_string()), |v| v.to_string());
    }
    for id in &plan.pack_ids {
        item(
            &mut d,
            format!("pack/{id}"),
            || {
                Ok(match container.get_pack(jbk::PackId::from(*id)).map_err(|e| e.to_string())? {
                    None => "none".to_string(),
                    Some(MayMissPack::MISSING(info)) => format!("missing:{}", pack_info_str(&info)),
                    Some(MayMissPack::FOUND(p)) => format!("found:uuid={} count={}", p.uuid(), p.get_content_count().into_u32()),
                })
            },
            |v| v.clone(),
        );
    }
    // free data: of each pack's own header, and what the manifest records for each pack
    if !plan.pack_ids.is_empty() {
        item(&mut d, "pack/0/free".into(), || Ok(container.get_directory_pack().get_free_data().to_vec()), |v| util::brief(v));
        for id in plan.pack_ids.iter().filter(|id| **id != 0) {
            let r = util::catch(|| match container.get_pack(jbk::PackId::from(*id)) {
                Ok(Some(MayMissPack::FOUND(p))) => Some(p.get_free_data().to_vec()),
                _ => None,
            });
            match r {
                Ok(Some(v)) => {
                    d.insert(format!("pack/{id}/free"), format!("ok:{}", util::brief(&v)));
                }
                Ok(None) => {}
                Err(p) => {
                    d.insert(format!("pack/{id}/free"), format!("panic:{}:{}", p.site(), p.norm_msg()));
                }
            }
        }
        let manifest = if !plan.manifest_free {
            None
        } else {
            item(
            &mut d,
            "pack/manifest/free".into(),
            || {
                let cp = jbk::tools::open_pack(path).map_err(|e| format!("open_pack: {e}"))?;
                let mr = cp.get_manifest_pack_reader().map_err(|e| e.to_string())?.ok_or("no manifest reader")?;
                let m = jbk::reader::ManifestPack::new(mr).map_err(|e| format!("ManifestPack::new: {e}"))?;
                Ok((m.get_free_data().to_vec(), m))
            },
            |v| util::brief(&v.0),
        )
        };
        if let Some((_, m)) = manifest {
            let mut infos = vec![m.get_directory_pack_info().clone()];
            infos.extend(m.get_pack_infos().iter().cloned());
            for info in infos {
                let id = info.pack_id.into_u16();
                item(
                    &mut d,
                    format!("pack/{id}/manifest_free"),
                    || {
                        let by_uuid = m.get_pack_free_data_uuid(info.uuid).map_err(|e| e.to_string())?.map(|b| b.to_vec());
                        // the other by-uuid getters answer for the same pack
                        if format!("{:?}", info.pack_kind) == "Content" && m.get_content_pack_info_uuid(info.uuid).map(|i| i.pack_id) != Some(info.pack_id) {
                            return Err(format!("get_content_pack_info_uuid({}) does not give pack {}", info.uuid, id));
                        }
                        if m.get_pack_check_info(info.uuid).map_err(|e| format!("get_pack_check_info: {e}"))?.is_none() {
                            return Err(format!("get_pack_check_info({}) = None for a listed pack", info.uuid));
                        }
                        if format!("{:?}", info.pack_kind) == "Content" {
                            let by_id = m.get_pack_free_data(info.pack_id).map_err(|e| e.to_string())?.map(|b| b.to_vec());
                            if by_id != by_uuid {
                                return Err(format!("get_pack_free_data by id gives {by_id:?}, by uuid {by_uuid:?}"));
                            }
                        }
                        Ok(by_uuid)
                    },
                    |v| match v {
                        Some(b) => util::brief(b),
                        None => "none".into(),
                    },
                );
            }
        }
    }
    // directory side
    let dpack = container.get_directory_pack().clone();
    let estorage = container.get_entry_storage().clone();
    let vstorage = container.get_value_storage().clone();
    for (name, props) in &plan.indexes {
        let index = match item(&mut d, format!("index/{name}"), || container.get_index_for_name(name).map_err(|e| e.to_string()), |v| if v.is_some() { "present".into() } else { "absent".into() }) {
            Some(Some(i)) => i,
            _ => continue,
        };
        d.insert(format!("index/{name}/window"), format!("ok:{}+{}", index.offset().into_u32(), index.count().into_u32()));
        let store = match item(&mut d, format!("index/{name}/store"), || index.get_store(&estorage).map_err(|e| e.to_string()), |_| "opened".into()) {
            Some(s) => s,
            None => continue,
        };
        let builder = match item(&mut d, format!("index/{name}/builder"), || jbk::reader::builder::AnyBuilder::new(store.clone(), vstorage.as_ref()).map_err(|e| e.to_string()), |_| "built".into()) {
            Some(b) => b,
            None => continue,
        };
        let vnames = variant_names(&store);
        let count = index.count().into_u32().min(100_000);
        for i in 0..count {
            let entry = match item(&mut d, format!("index/{name}/{i:06}"), || index.get_entry(&builder, jbk::EntryIdx::from(i)).map_err(|e| e.to_string()), |v| if v.is_some() { "entry".into() } else { "none".into() }) {
                Some(Some(e)) => e,
                _ => continue,
            };
            item(&mut d, format!("index/{name}/{i:06}/variant"), || read_entry(&entry, &vnames, &[]).map(|r| r.variant), |v| format!("{v:?}"));
            for p in props {
                item(
                    &mut d,
                    format!("index/{name}/{i:06}/p/{p}"),
                    || read_entry(&entry, &vnames, std::slice::from_ref(p)).map(|r| r.vals.get(p).cloned()),
                    |v| match v {
                        Some(v) => val_str(v),
                        None => "absent".into(),
                    },
                );
            }
        }
        item(&mut d, format!("index/{name}/past"), || index.get_entry(&builder, jbk::EntryIdx::from(count)).map(|e| e.is_some()).map_err(|e| e.to_string()), |v| format!("{v}"));
    }
    let _ = dpack;
    // contents
    for (pack, id) in &plan.addrs {
        let addr = jbk::ContentAddress::new(jbk::PackId::from(*pack), jbk::ContentIdx::from(*id));
        let got = item(
            &mut d,
            format!("content/{pack}/{id:06}"),
            || {
                let direct = match container.get_bytes(addr).map_err(|e| e.to_string())? {
                    None => (None, "none".to_string()),
                    Some(MayMissPack::MISSING(info)) => (None, format!("missing:{}", pack_info_str(&info))),
                    Some(MayMissPack::FOUND(None)) => (None, "found:none".to_string()),
                    Some(MayMissPack::FOUND(Some(r))) => {
                        let size = r.size().into_u64();
                        (Some(r), format!("found:size={size}"))
                    }
                };
                // the same answer taken through the combinators of MayMissPack (as_ref / map / transpose / get) agrees
                let again = container.get_bytes(addr).map_err(|e| e.to_string())?;
                let via = match again.and_then(|m| m.map(|o| o.map(|r| r.size().into_u64())).transpose()) {
                    None => "none-or-found:none".to_string(),
                    Some(m) => match m.as_ref() {
                        MayMissPack::MISSING(info) => format!("missing:{}", pack_info_str(&info)),
                        MayMissPack::FOUND(size) => format!("found:size={size}"),
                    },
                };
                let same = via == direct.1 || (via == "none-or-found:none" && (direct.1 == "none" || direct.1 == "found:none"));
                if !same {
                    return Err(format!("get_bytes answers {:?} but {:?} through map/transpose/as_ref", direct.1, via));
                }
                Ok(direct)
            },
            |v| v.1.clone(),
        );
        if let (Some((Some(region), _)), true) = (got, plan.bytes) {
            let read = item(
                &mut d,
                format!("content/{pack}/{id:06}/bytes"),
                || {
                    let mut v = Vec::with_capacity(region.size().into_u64() as usize);
                    region.stream().read_to_end(&mut v).map_err(|e| e.to_string())?;
                    Ok(v)
                },
                |v| format!("len={} b3={}", v.len(), &blake3::hash(v).to_hex()[..16]),
            );
            // how many bytes the stream delivered before ending without an error (a structural item: a stream that stops
            // short of the size it announced, silently, is not "other bytes")
            if let Some(v) = read {
                d.insert(format!("content/{pack}/{id:06}/streamed"), format!("ok:{}", v.len()));
            }
        }
    }
    if plan.checks {
        item(&mut d, "check/container".into(), || container.check().map_err(|e| e.to_string()), |v| v.to_string());
        item(&mut d, "check/directory_pack".into(), || container.get_directory_pack().check().map_err(|e| e.to_string()), |v| v.to_string());
        for id in &plan.pack_ids {
            // (id 0 names a content pack only in containers made with the low-level creators; otherwise get_pack(0) is None)
            let r = util::catch(|| match container.get_pack(jbk::PackId::from(*id)) {
                Ok(Some(MayMissPack::FOUND(p))) => Some(p.check().map_err(|e| e.to_string())),
                _ => None,
            });
            match r {
                Ok(Some(Ok(v))) => {
                    d.insert(format!("check/pack/{id}"), format!("ok:{v}"));
                }
                Ok(Some(Err(e))) => {
                    d.insert(format!("check/pack/{id}"), format!("err:{}", util::truncate(&e, 200)));
                }
                Ok(None) => {}
                Err(p) => {
                    d.insert(format!("check/pack/{id}"), format!("panic:{}:{}", p.site(), p.norm_msg()));
                }
            }
        }
        file_check(&mut d, path);
    }
    d
}

/// `tools::open_pack(file).check()` for the entry point and for every sibling pack file
pub fn file_check(d: &mut Dump, path: &Path) {
    let mut files = vec![path.to_path_buf()];
    if let Some(dir) = path.parent() {
        let mut sib: Vec<_> = crate::cont::list_files(dir).into_iter().filter(|p| p != path).collect();
        sib.sort();
        files.extend(sib);
    }
    for f in files {
        let name = f.file_name().map(|n| n.to_string_lossy().into_owned()).unwrap_or_default();
        if !(name.ends_with(".jbk") || name.ends_with(".jbkc") || name.ends_with(".jbkd") || name.ends_with(".jbkm")) {
            continue;
        }
        item(d, format!("check/file/{name}"), || jbk::tools::open_pack(&f).map_err(|e| format!("open_pack: {e}"))?.check().map_err(|e| e.to_string()), |v| v.to_string());
    }
}

/// The dump the model expects for a freshly created, complete container (all packs available).
pub fn expected_dump(case: &ContCase, created: &CreatedCont, plan: &Plan) -> Dump {
    let mut d = Dump::new();
    d.insert("open".into(), "ok:opened".into());
    d.insert("pack_count".into(), format!("ok:{}", 2 + case.extra.len()));
    let orders: Vec<Vec<usize>> = case.dir.stores.iter().enumerate().map(|(si, st)| final_order(st, &created.inst.models[si])).collect();
    for ix in &case.dir.indexes {
        let name = &ix.name;
        d.insert(format!("index/{name}"), "ok:present".into());
        d.insert(format!("index/{name}/window"), format!("ok:{}+{}", ix.offset, ix.count));
        d.insert(format!("index/{name}/store"), "ok:opened".into());
        d.insert(format!("index/{name}/builder"), "ok:built".into());
        let st = &case.dir.stores[ix.store];
        let model = &created.inst.models[ix.store];
        let order = &orders[ix.store];
        let mut inverse = vec![0usize; order.len()];
        for (pos, e) in order.iter().enumerate() {
            inverse[*e] = pos;
        }
        let props: Vec<String> = st.common.iter().chain(st.variants.iter().flat_map(|v| v.props.iter())).map(|p| p.name.clone()).collect();
        for i in 0..ix.count {
            let em = &model[order[(ix.offset + i) as usize]];
            d.insert(format!("index/{name}/{i:06}"), "ok:entry".into());
            d.insert(format!("index/{name}/{i:06}/variant"), format!("ok:{:?}", em.variant.map(|v| st.variants[v].name.clone())));
            for p in &props {
                let s = match em.vals.get(p) {
                    Some(Val::Ref(t)) => val_str(&resolved_ref(st, p, inverse[*t])),
                    Some(Val::RefO(ts, t)) => {
                        let pos = orders[*ts].iter().position(|e| e == t).unwrap_or(0);
                        val_str(&Val::U(pos as u64))
                    }
                    Some(v) => val_str(v),
                    None => "absent".into(),
                };
                d.insert(format!("index/{name}/{i:06}/p/{p}"), format!("ok:{s}"));
            }
        }
        d.insert(format!("index/{name}/past"), "ok:false".into());
    }
    // contents: main pack and extras, by address
    let mut by_addr: BTreeMap<(u16, u32), Vec<u8>> = BTreeMap::new();
    for (i, a) in created.addrs.iter().enumerate() {
        by_addr.insert((a.pack_id.into_u16(), a.content_id.into_u32()), case.content.bytes_of(i));
    }
    for (e, ea) in created.extra_addrs.iter().enumerate() {
        for (i, a) in ea.iter().enumerate() {
            by_addr.insert((a.pack_id.into_u16(), a.content_id.into_u32()), case.extra[e].bytes_of(i));
        }
    }
    let counts: BTreeMap<u16, u32> = std::iter::once((case.pack_id(0), case.content.expected_count() as u32)).chain(case.extra.iter().enumerate().map(|(e, c)| (case.pack_id(e + 1), c.items.len() as u32))).collect();
    for (pack, id) in &plan.addrs {
        let key = format!("content/{pack}/{id:06}");
        match by_addr.get(&(*pack, *id)) {
            Some(b) => {
                d.insert(key.clone(), format!("ok:found:size={}", b.len()));
                if plan.bytes {
                    d.insert(format!("{key}/bytes"), format!("ok:len={} b3={}", b.len(), &blake3::hash(b).to_hex()[..16]));
                    d.insert(format!("{key}/streamed"), format!("ok:{}", b.len()));
                }
            }
            None => {
                if counts.contains_key(pack) {
                    d.insert(key, "ok:found:none".into());
                } else {
                    d.insert(key, "ok:none".into());
                }
            }
        }
    }
    if !plan.pack_ids.is_empty() {
        let seed = case.dir.free;
        let z = vec![0u8; 24];
        let loose = created.loose;
        d.insert("pack/0/free".into(), format!("ok:{}", util::brief(&if loose { pack_free(seed, "directory").to_vec() } else { z.clone() })));
        if plan.manifest_free {
            d.insert("pack/manifest/free".into(), format!("ok:{}", util::brief(&if loose { pack_free(seed, "manifest").to_vec() } else { z.clone() })));
            d.insert("pack/0/manifest_free".into(), format!("ok:{}", util::brief(&if loose { packinfo_free(seed, 0) } else { vec![] })));
        }
        for id in counts.keys() {
            // BasicCreator makes pack 1 itself (default free data); extra packs and loose packs get the case's
            let own = if loose || *id >= 2 { pack_free(seed, &format!("content:{id}")).to_vec() } else { z.clone() };
            d.insert(format!("pack/{id}/free"), format!("ok:{}", util::brief(&own)));
            if plan.manifest_free {
                d.insert(format!("pack/{id}/manifest_free"), format!("ok:{}", util::brief(&if loose { packinfo_free(seed, *id) } else { vec![] })));
            }
        }
    }
    if plan.checks {
        d.insert("check/container".into(), "ok:true".into());
        d.insert("check/directory_pack".into(), "ok:true".into());
        for id in counts.keys() {
            d.insert(format!("check/pack/{id}"), "ok:true".into());
        }
    }
    d
}

/// Item-wise differences between two dumps restricted to keys accepted by `keep`.
pub fn diff(expected: &Dump, got: &Dump, keep: impl Fn(&str) -> bool) -> Vec<String> {
    let mut out = vec![];
    for (k, e) in expected {
        if !keep(k) {
            continue;
        }
        match got.get(k) {
            Some(g) if g == e => {}
            Some(g) => out.push(format!("{k}: {} (expected {})", util::truncate(g, 160), util::truncate(e, 160))),
            None => out.push(format!("{k}: missing from the dump (expected {})", util::truncate(e, 120))),
        }
    }
    for k in got.keys() {
        if keep(k) && !expected.contains_key(k) && !k.starts_with("pack/") && !k.starts_with("check/file/") {
            out.push(format!("{k}: unexpected item {}", util::truncate(&got[k], 120)));
        }
    }
    out
}
