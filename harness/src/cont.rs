//! Whole-container cases: a content case + a directory case written through `BasicCreator`
//! in one of its packagings, optionally with extra content packs; and the comparison of the
//! independent decoder's view of the produced files with the model.

use crate::c01::Pkg;
use crate::content::*;
use crate::dirs::*;
use crate::indep::{self, FileView, PackBody};
use crate::proto::*;
use crate::rng::Rng;
use crate::util;
use jubako as jbk;
use jubako::creator::{BasicCreator, CachedContentAdder, ContentPackCreator};
use serde_json::{json, Value};
use std::path::{Path, PathBuf};
use std::rc::Rc;
use std::sync::{Arc, Mutex};

#[derive(Clone, Debug)]
pub struct ContCase {
    pub content: ContentCase,
    pub dir: DirCase,
    pub pkg: Pkg,
    /// extra content packs (pack ids 2.. when `id_gap` is 0), each a small content case
    pub extra: Vec<ContentCase>,
    /// pack ids of the extra packs are spread out: extra number e (0-based) gets id 2 + e * (1 + id_gap)
    pub id_gap: u16,
    /// pack id of the main content pack: 1 (what BasicCreator always uses), or 0 for containers made with the low-level
    /// creators (a content pack may be given the id 0; the directory pack is not in the same list)
    pub first_id: u16,
}

impl ContCase {
    pub fn to_json(&self) -> Value {
        json!({"content": self.content.to_json(), "dir": self.dir.to_json(), "pkg": self.pkg.as_str(),
               "extra": self.extra.iter().map(|c| c.to_json()).collect::<Vec<_>>(), "id_gap": self.id_gap, "first_id": self.first_id})
    }
    /// Pack id of content pack number `pi` (0 = the main pack, 1.. = the extras).
    pub fn pack_id(&self, pi: usize) -> u16 {
        if pi == 0 {
            self.first_id
        } else {
            self.first_id + 1 + (pi as u16 - 1) * (1 + self.id_gap)
        }
    }
    pub fn from_json(v: &Value) -> ContCase {
        ContCase {
            content: ContentCase::from_json(v.get("content").unwrap_or(&Value::Null)),
            dir: DirCase::from_json(v.get("dir").unwrap_or(&Value::Null)),
            pkg: Pkg::parse(jstr(v, "pkg")),
            extra: jarr(v, "extra").iter().map(ContentCase::from_json).collect(),
            id_gap: v.get("id_gap").and_then(|x| x.as_u64()).unwrap_or(0) as u16,
            first_id: v.get("first_id").and_then(|x| x.as_u64()).unwrap_or(1) as u16,
        }
    }
}

/// What the container-level knobs of the case were (evidence).
pub fn observe_cont(case: &ContCase, out: &mut CaseOut) {
    if !case.extra.is_empty() {
        out.obs.set("extra_pack_ids", (1..=case.extra.len()).map(|pi| case.pack_id(pi).to_string()).collect::<Vec<_>>().join("+"));
    }
    out.obs.inc(if case.dir.free == 0 { "free_data.zero" } else { "free_data.arbitrary" });
}

/// A small container: a few contents, a "files" store linking entry e to content e of pack 1
/// (and of the extra packs), plus a second store with assorted property kinds.
pub fn gen_small(rng: &mut Rng, tier: Tier, pkg: Pkg, n_extra: usize, max_items: usize) -> ContCase {
    let comp = Comp::pick(rng, tier);
    let n_items = rng.range(1, max_items as u64) as usize;
    let mut items = vec![];
    for _ in 0..n_items {
        let len = *rng.pick(&[0usize, 1, 5, 100, 255, 256, 1000, 4096, 5000, 70_000]);
        items.push(Item { len, ent: *rng.pick(&Ent::ALL), hint: *rng.pick(&Hint::ALL), src: Src::Mem, dup_of: None, cat_of: None });
    }
    let content = ContentCase { seed: rng.next(), comp, cached: false, items };
    let mut extra = vec![];
    for _ in 0..n_extra {
        let n = rng.range(1, 4) as usize;
        let items = (0..n)
            .map(|_| Item { len: *rng.pick(&[3usize, 300, 5000]), ent: *rng.pick(&Ent::ALL), hint: *rng.pick(&Hint::ALL), src: Src::Mem, dup_of: None, cat_of: None })
            .collect();
        extra.push(ContentCase { seed: rng.next(), comp: Comp::pick(rng, tier), cached: false, items });
    }
    let indexed = rng.chance(1, 2);
    let files = StoreDef {
        n: n_items,
        common: vec![
            PDef { name: "cid".into(), kind: PKind::UInt, col: Col::Seq },
            PDef { name: "addr".into(), kind: PKind::Content, col: Col::Seq },
            PDef { name: "path".into(), kind: PKind::Array { prefix: *rng.pick(&[0u8, 1, 4]), store: 0 }, col: Col::Seq },
        ],
        variants: vec![],
        sort: if rng.chance(1, 2) { Some(vec!["path".into()]) } else { None },
        unique_keys: true,
    };
    let misc = StoreDef {
        n: rng.range(0, 12) as usize,
        common: vec![
            PDef { name: "u".into(), kind: PKind::UInt, col: Col::Width(rng.range(1, 8) as u8) },
            PDef { name: "s".into(), kind: PKind::SInt, col: Col::Width(rng.range(1, 8) as u8) },
            PDef { name: "a".into(), kind: PKind::Array { prefix: *rng.pick(&[0u8, 2, 31]), store: 0 }, col: Col::Arr { max: 20, alpha: 4 } },
        ],
        variants: vec![
            VariantDef { name: "X".into(), props: vec![PDef { name: "x".into(), kind: PKind::Content, col: Col::Content { packs: 2, maxid: 300 } }] },
            VariantDef { name: "Y".into(), props: vec![PDef { name: "y".into(), kind: PKind::UInt, col: Col::Small }, PDef { name: "y2".into(), kind: PKind::SInt, col: Col::Const }] },
        ],
        sort: None,
        unique_keys: false,
    };
    let mut indexes = vec![IndexDef { name: "files".into(), store: 0, offset: 0, count: n_items as u32 }, IndexDef { name: "misc".into(), store: 1, offset: 0, count: misc.n as u32 }];
    if n_items >= 2 {
        indexes.push(IndexDef { name: "files_tail".into(), store: 0, offset: 1, count: n_items as u32 - 1 });
    }
    let dir = DirCase { seed: rng.next(), vstores: vec![indexed], stores: vec![files, misc], indexes, defer: 0, free: if rng.chance(1, 2) { rng.next() | 1 } else { 0 } };
    ContCase { content, dir, pkg, extra, id_gap: 0, first_id: 1 }
}

pub struct CreatedCont {
    /// entry point (the file to give to `Container::new`)
    pub path: PathBuf,
    pub addrs: Vec<jbk::ContentAddress>,
    pub extra_addrs: Vec<Vec<jbk::ContentAddress>>,
    pub inst: Installed,
    /// every file produced (entry point first)
    pub files: Vec<PathBuf>,
    /// made with the low-level creators (every free-data field chosen by the case) rather than BasicCreator
    pub loose: bool,
}

/// Create the container in `dir` (file name `name`, e.g. "c.jbk").
pub fn create_container(case: &ContCase, dir: &Path, name: &str, progress: Arc<dyn jbk::creator::Progress>) -> Result<CreatedCont, String> {
    create_container_ex(case, dir, name, dir, progress)
}

/// Same, the extra content packs being written in `extras_dir` (possibly another directory than the container's).
pub fn create_container_ex(case: &ContCase, dir: &Path, name: &str, extras_dir: &Path, progress: Arc<dyn jbk::creator::Progress>) -> Result<CreatedCont, String> {
    std::fs::create_dir_all(extras_dir).map_err(|e| e.to_string())?;
    let inputs = dir.join("inputs");
    std::fs::create_dir_all(&inputs).map_err(|e| e.to_string())?;
    let path = dir.join(name);
    let upath = camino::Utf8PathBuf::from_path_buf(path.clone()).map_err(|_| "utf8")?;
    let mut before: std::collections::BTreeSet<PathBuf> = list_files(dir);
    before.extend(list_files(extras_dir));
    let creator = BasicCreator::new(&upath, case.pkg.mode(), vendor(), case.content.comp.to_jbk(), progress).map_err(|e| format!("new: {e}"))?;
    let (addrs, creator) = if case.content.cached {
        let mut adder = CachedContentAdder::new(creator, Rc::new(()));
        let a = add_all(&mut adder, &case.content, &inputs).map_err(|e| format!("add_content: {e}"))?;
        (a, adder.into_inner())
    } else {
        let mut creator = creator;
        let a = add_all(&mut creator, &case.content, &inputs).map_err(|e| format!("add_content: {e}"))?;
        (a, creator)
    };
    // extra content packs, each in its own file next to the container
    let mut extras: Vec<ContentPackCreator<dyn jbk::creator::PackRecipient>> = vec![];
    let mut extra_addrs = vec![];
    for (i, ec) in case.extra.iter().enumerate() {
        // (the second extra pack has a colon in its file name, hence in its recorded location: a location is a path, not a URL)
        let ename = if i == 1 { format!("extra:{}.jbkc", i + 2) } else { format!("extra{}.jbkc", i + 2) };
        let epath = camino::Utf8PathBuf::from_path_buf(extras_dir.join(ename)).map_err(|_| "utf8")?;
        let out: Box<dyn jbk::creator::PackRecipient> = jbk::creator::AtomicOutFile::new(&epath).map_err(|e| format!("extra out: {e}"))?;
        let mut c = ContentPackCreator::new_from_output(out, jbk::PackId::from(case.pack_id(i + 1)), vendor(), pack_free(case.dir.free, &format!("content:{}", case.pack_id(i + 1))).into(), ec.comp.to_jbk()).map_err(|e| format!("extra new: {e}"))?;
        let a = add_all(&mut c, ec, &inputs).map_err(|e| format!("extra add: {e}"))?;
        extra_addrs.push(a);
        extras.push(c);
    }
    let slot = Arc::new(Mutex::new(None));
    let installer = DirInstaller { case: case.dir.clone(), built: Some(build(&case.dir)), out: slot.clone() };
    creator.finalize(Box::new(installer), extras).map_err(|e| format!("finalize: {e}"))?;
    let inst = slot.lock().unwrap().take().ok_or("entry store installer was not called")?;
    let mut after = list_files(dir);
    after.extend(list_files(extras_dir));
    let mut files: Vec<PathBuf> = after.difference(&before).cloned().collect();
    files.retain(|p| p.is_file());
    files.sort_by_key(|p| (*p != path, p.clone()));
    Ok(CreatedCont { path, addrs, extra_addrs, inst, files, loose: false })
}

pub fn list_files(dir: &Path) -> std::collections::BTreeSet<PathBuf> {
    std::fs::read_dir(dir).map(|rd| rd.filter_map(|e| e.ok()).map(|e| e.path()).filter(|p| p.is_file()).collect()).unwrap_or_default()
}

/// Decode every produced file with the independent decoder.
pub fn decode_files(files: &[PathBuf]) -> Vec<(PathBuf, FileView)> {
    files
        .iter()
        .filter_map(|p| std::fs::read(p).ok().map(|b| (p.clone(), indep::decode_file(&b))))
        .collect()
}

/// Compare the decoder's directory view with the model. Returns human readable differences.
pub fn compare_directory(case: &DirCase, models: &[Vec<EntryModel>], view: &FileView) -> Vec<String> {
    let mut diffs = vec![];
    let dp = match view.directory_pack() {
        Some(p) => p,
        None => return vec!["no directory pack decoded".into()],
    };
    let (indexes, stores) = match &dp.body {
        PackBody::Directory { indexes, stores } => (indexes, stores),
        _ => return vec!["directory pack body undecodable".into()],
    };
    if stores.len() != case.stores.len() {
        diffs.push(format!("{} entry stores decoded, {} written", stores.len(), case.stores.len()));
        return diffs;
    }
    for (si, st) in case.stores.iter().enumerate() {
        let order = final_order(st, &models[si]);
        let mut inverse = vec![0usize; order.len()];
        for (pos, e) in order.iter().enumerate() {
            inverse[*e] = pos;
        }
        let dec = &stores[si];
        if dec.entries.len() != st.n {
            diffs.push(format!("store {si}: {} entries decoded, {} written", dec.entries.len(), st.n));
            continue;
        }
        for (pos, e) in order.iter().enumerate() {
            let em = &models[si][*e];
            let de = &dec.entries[pos];
            let exp_variant = em.variant.map(|v| st.variants[v].name.clone());
            if de.variant != exp_variant {
                diffs.push(format!("store {si} position {pos}: variant {:?} decoded, {:?} written", de.variant, exp_variant));
            }
            for (name, v) in &em.vals {
                let expected = match v {
                    Val::Ref(t) => resolved_ref(st, name, inverse[*t]),
                    Val::RefO(ts, t) => {
                        let o = final_order(&case.stores[*ts], &models[*ts]);
                        Val::U(o.iter().position(|e| e == t).unwrap_or(0) as u64)
                    }
                    o => o.clone(),
                };
                match de.vals.get(name) {
                    Some(g) if *g == expected => {}
                    Some(g) => diffs.push(format!("store {si} position {pos} property {name}: decoded {} but {} was written", g.brief(), expected.brief())),
                    None => diffs.push(format!("store {si} position {pos}: property {name} not in the decoded entry")),
                }
            }
            if de.vals.len() != em.vals.len() {
                diffs.push(format!("store {si} position {pos}: {} properties decoded, {} written", de.vals.len(), em.vals.len()));
            }
            if diffs.len() > 8 {
                return diffs;
            }
        }
    }
    // (name, store, offset, count, declared key property, free data)
    let mut got: Vec<(String, u32, u32, u32, u8, [u8; 4])> = indexes.iter().map(|i| (i.name.clone(), i.store, i.offset, i.count, i.key, i.free)).collect();
    let mut exp: Vec<(String, u32, u32, u32, u8, [u8; 4])> = case.indexes.iter().map(|i| (i.name.clone(), i.store as u32, i.offset, i.count, index_key(case, i), index_free(case, &i.name))).collect();
    got.sort();
    exp.sort();
    if got != exp {
        diffs.push(format!("indexes decoded {got:?} != written {exp:?}"));
    }
    diffs
}

/// Free data recorded in the manifest for pack `id` by the low-level creation path: 0..40 bytes (empty without a seed).
pub fn packinfo_free(seed: u64, id: u16) -> Vec<u8> {
    if seed == 0 {
        return vec![];
    }
    let mut n = free_bytes(seed, &format!("packinfo-len:{id}"), 1)[0] as usize % 41;
    if seed % 8 == 1 && id == 1 {
        // one big per-pack free data: the manifest's value store then pushes the pack descriptions beyond the first 64 KiB of the pack
        n = 70_000;
    }
    free_bytes(seed, &format!("packinfo:{id}"), n)
}

/// What the free-data fields of the packs must hold, as the independent decoder sees them: kind-specific header free
/// data per pack and the per-pack free data of the manifest. `loose` = made by the low-level creators.
pub fn compare_free(case: &ContCase, loose: bool, views: &[(PathBuf, FileView)]) -> Vec<String> {
    let seed = case.dir.free;
    let mut diffs = vec![];
    // pack id by uuid, from the manifest
    let mut id_of = std::collections::BTreeMap::new();
    let mut infos = vec![];
    for (_, v) in views {
        if let Some(PackBody::Manifest { infos: i }) = v.manifest_pack().map(|p| &p.body) {
            for x in i {
                id_of.insert(x.uuid, (x.id, x.kind));
            }
            infos = i.clone();
        }
    }
    let mut seen = 0;
    for (p, v) in views {
        for pack in &v.packs {
            let expected: Vec<u8> = match pack.hdr.kind {
                b'm' => if loose { pack_free(seed, "manifest").to_vec() } else { vec![0; 24] },
                b'd' => if loose { pack_free(seed, "directory").to_vec() } else { vec![0; 24] },
                b'c' => match id_of.get(&pack.hdr.uuid) {
                    // BasicCreator makes pack 1 itself (default free data); the caller makes the extras
                    Some((id, _)) if loose || *id >= 2 => pack_free(seed, &format!("content:{id}")).to_vec(),
                    Some(_) => vec![0; 24],
                    None => continue,
                },
                _ => continue,
            };
            seen += 1;
            if pack.free != expected {
                diffs.push(format!("{}: pack kind '{}' header free data decodes to {} but {} was given", p.file_name().unwrap().to_string_lossy(), pack.hdr.kind as char, util::brief(&pack.free), util::brief(&expected)));
            }
        }
    }
    // "the checkInfo tail of each pack must be copied in the manifest pack": the copy equals the pack's own check block
    for i in &infos {
        for (_, v) in views {
            for pack in v.packs.iter().filter(|pk| pk.hdr.uuid == i.uuid) {
                if !pack.check_block.is_empty() && pack.check_block != i.check_copy {
                    diffs.push(format!("manifest: the check info recorded for pack {} ({}) is not the pack's own check block ({})", i.id, util::brief(&i.check_copy), util::brief(&pack.check_block)));
                }
            }
        }
    }
    for i in &infos {
        let expected = if loose { packinfo_free(seed, i.id) } else { vec![] };
        match &i.free {
            Some(f) if *f == expected => {}
            Some(f) => diffs.push(format!("manifest: free data of pack {} decodes to {} but {} was given", i.id, util::brief(f), util::brief(&expected))),
            None => diffs.push(format!("manifest: free data of pack {} (value {}) cannot be decoded", i.id, i.free_data_id)),
        }
    }
    if seen == 0 {
        diffs.push("no pack header decoded".into());
    }
    diffs
}

/// Compare the decoder's view of a content pack with the model (bytes of every address, count).
pub fn compare_content(case: &ContentCase, addrs: &[jbk::ContentAddress], pack: &indep::PackView) -> Vec<String> {
    let mut diffs = vec![];
    let contents = match &pack.body {
        PackBody::Content { contents, .. } => contents,
        _ => return vec!["not a content pack".into()],
    };
    let expected = case.expected_count();
    if contents.len() != expected {
        diffs.push(format!("content table has {} entries, {} contents were accepted", contents.len(), expected));
    }
    for (i, a) in addrs.iter().enumerate() {
        match pack.content_bytes(a.content_id.into_u32() as usize) {
            Some(b) => {
                if b != case.bytes_of(i) {
                    diffs.push(format!("item {i} (content id {}): decoded bytes differ: {}", a.content_id.into_u32(), explain_mismatch(case, i, &b)));
                }
            }
            None => diffs.push(format!("item {i}: content id {} cannot be decoded", a.content_id.into_u32())),
        }
        if diffs.len() > 6 {
            break;
        }
    }
    diffs
}

/// Create the packs of `case` as loose files with the low-level creators (ContentPackCreator on a NamedFile,
/// DirectoryPackCreator, ManifestPackCreator) recording `location(i)` for pack number i (0 = directory, 1.. = content packs);
/// when `concat_to` is given, all the files are then joined by `tools::concat` into that single file.
pub fn create_loose(case: &ContCase, dir: &Path, location: &dyn Fn(usize, &str) -> String, concat_to: Option<&str>) -> Result<CreatedCont, String> {
    use jbk::creator::{DirectoryPackCreator, ManifestPackCreator};
    let inputs = dir.join("inputs");
    std::fs::create_dir_all(&inputs).map_err(|e| e.to_string())?;
    let mut pack_files: Vec<(String, jbk::creator::PackData)> = vec![];
    let mut all_addrs = vec![];
    for (pi, cc) in std::iter::once(&case.content).chain(case.extra.iter()).enumerate() {
        let fname = format!("pack{}.jbkc", pi + 1);
        let upath = camino::Utf8PathBuf::from_path_buf(dir.join(&fname)).map_err(|_| "utf8")?;
        let mut c = ContentPackCreator::new(&upath, jbk::PackId::from(case.pack_id(pi)), vendor(), pack_free(case.dir.free, &format!("content:{}", case.pack_id(pi))).into(), cc.comp.to_jbk()).map_err(|e| format!("content new: {e}"))?;
        let addrs = add_all(&mut c, cc, &inputs).map_err(|e| format!("add_content: {e}"))?;
        let (_f, mut data) = c.finalize().map_err(|e| format!("content finalize: {e}"))?;
        // the free data recorded for this pack in the manifest (any length)
        data.free_data = packinfo_free(case.dir.free, case.pack_id(pi));
        pack_files.push((fname, data));
        all_addrs.push(addrs);
    }
    let mut dcreator = DirectoryPackCreator::new(jbk::PackId::from(0), vendor(), pack_free(case.dir.free, "directory").into());
    let inst = install(&case.dir, build(&case.dir), &mut dcreator);
    let dname = "dir.jbkd".to_string();
    let mut dfile = std::fs::OpenOptions::new().read(true).write(true).create(true).truncate(true).open(dir.join(&dname)).map_err(|e| e.to_string())?;
    let mut ddata = dcreator.finalize().map_err(|e| format!("dir finalize: {e}"))?.write(&mut dfile).map_err(|e| format!("dir write: {e}"))?;
    ddata.free_data = packinfo_free(case.dir.free, 0);
    drop(dfile);
    let mut m = ManifestPackCreator::new(vendor(), pack_free(case.dir.free, "manifest").into());
    // the directory pack is declared first, or (every other case) after the first content pack declared: the order of the
    // declarations in a manifest is free, packs are told apart by kind, id and uuid
    let mut ddata = Some(ddata);
    let dir_later = case.dir.seed % 2 == 1 && !pack_files.is_empty();
    if !dir_later {
        m.add_pack(ddata.take().unwrap(), location(0, &dname));
    }
    let mut names = vec![dname.clone()];
    // the content packs are recorded in the manifest in REVERSE id order (n, n-1, .., 1): lookups must go by pack id,
    // not by position in the manifest
    let mut recorded: Vec<(usize, String, jbk::creator::PackData)> = pack_files.into_iter().enumerate().map(|(i, (f, d))| (i + 1, f, d)).collect();
    for (_, fname, _) in &recorded {
        names.push(fname.clone());
    }
    recorded.reverse();
    for (id, fname, data) in recorded {
        m.add_pack(data, location(id, &fname));
        if let Some(d) = ddata.take() {
            m.add_pack(d, location(0, &dname));
        }
    }
    let mname = if concat_to.is_some() { "manifest.jbkm" } else { "c.jbk" };
    let mut mfile = std::fs::OpenOptions::new().read(true).write(true).create(true).truncate(true).open(dir.join(mname)).map_err(|e| e.to_string())?;
    m.finalize(&mut mfile).map_err(|e| format!("manifest finalize: {e}"))?;
    drop(mfile);
    let _ = std::fs::remove_dir_all(&inputs);
    let mut files: Vec<PathBuf> = vec![dir.join(mname)];
    files.extend(names.iter().map(|n| dir.join(n)));
    let mut path = dir.join(mname);
    if let Some(out) = concat_to {
        let (out, dup) = match out.strip_prefix("dup:") {
            // "dup:<name>": the first content pack is given twice, first, to tools::concat (same uuid stored twice)
            Some(o) => (o, true),
            None => (out, false),
        };
        let outp = camino::Utf8PathBuf::from_path_buf(dir.join(out)).map_err(|_| "utf8")?;
        let mut inputs = files.clone();
        if dup {
            let p1 = dir.join("pack1.jbkc");
            inputs.retain(|f| *f != p1);
            inputs.insert(0, p1.clone());
            inputs.insert(0, p1);
        }
        jbk::tools::concat(&inputs, &outp).map_err(|e| format!("concat: {e}"))?;
        for f in &files {
            let _ = std::fs::remove_file(f);
        }
        files = vec![dir.join(out)];
        path = dir.join(out);
    }
    let mut it = all_addrs.into_iter();
    let addrs = it.next().unwrap_or_default();
    Ok(CreatedCont { path, addrs, extra_addrs: it.collect(), inst, files, loose: true })
}
