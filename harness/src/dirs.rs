//! Directory-side generator and reference model: schemas, entries, indexes handed to the
//! directory-pack creator, and the read-back of the same through the public reader API.

use crate::proto::*;
use crate::rng::{mix, Fp, Rng};
use crate::util;
use jubako as jbk;
use jubako::creator::schema;
use jubako::reader::EntryTrait as _;
use serde_json::{json, Value};
use std::cmp::Ordering;
use std::collections::{BTreeMap, HashMap};
use std::path::Path;
use std::sync::Arc;

// ------------------------------------------------------------------------------------------------
// model

#[derive(Clone, Debug, PartialEq, Eq)]
pub enum Val {
    U(u64),
    S(i64),
    A(Vec<u8>),
    C(u16, u32),
    /// reference to entry number `.0` (insertion order) of the same store; stored as that entry's final position
    Ref(usize),
    /// reference to entry number `.1` (insertion order) of ANOTHER store `.0`; stored as that entry's final position there
    RefO(usize, usize),
}

impl Val {
    pub fn brief(&self) -> String {
        match self {
            Val::U(v) => format!("u{v}"),
            Val::S(v) => format!("s{v}"),
            Val::A(v) => format!("a[{}]", util::brief(v)),
            Val::C(p, c) => format!("c{p}:{c}"),
            Val::Ref(r) => format!("ref#{r}"),
            Val::RefO(st, r) => format!("ref#{st}:{r}"),
        }
    }
    /// order "as the reader compares": integers numerically, arrays on the whole byte string
    pub fn cmp_reader(&self, o: &Val) -> Ordering {
        match (self, o) {
            (Val::U(a), Val::U(b)) => a.cmp(b),
            (Val::S(a), Val::S(b)) => a.cmp(b),
            (Val::A(a), Val::A(b)) => a.cmp(b),
            _ => Ordering::Equal,
        }
    }
}

#[derive(Clone, Debug, PartialEq)]
pub enum PKind {
    UInt,
    SInt,
    Array { prefix: u8, store: usize },
    Content,
    /// unsigned property holding the final position of another entry (deferred value)
    RefTo,
    /// the same reference kept in a SIGNED column, handed over as a closure word (`Value::SignedWord`) reading the handle
    RefToS,
}

/// How the values of one column are drawn (pure function of seed, entry number, column).
#[derive(Clone, Debug, PartialEq)]
pub enum Col {
    /// same value in every entry (the writer stores it as a default, size 0)
    Const,
    /// small values
    Small,
    /// values at the byte-width boundaries (both signs for signed columns); `w` = largest width in bytes
    Width(u8),
    /// any 64-bit value
    Full,
    /// entry number (unique)
    Seq,
    /// n-1-entry number: a sort on it reverses the insertion order
    RevSeq,
    /// references into another store (`.0`), spread over its entries (first, last, and in between)
    RefOther(usize),
    /// entry number, but the last sixteenth of the entries repeat the values of earlier entries (never the first one):
    /// duplicates arriving after many distinct values
    SeqDup,
    /// arrays: length up to `max`, over `alpha` symbols (0 = all 256 byte values), sharing prefixes
    Arr { max: u32, alpha: u8 },
    /// arrays: lengths exactly around the inline prefix (prefix-1, prefix, prefix+1, 0)
    ArrAroundPrefix,
    /// arrays whose length crosses a length-field boundary (255/256) in the same column
    ArrLen256,
    /// long arrays (254..260, 300, 511..513, 1024 bytes) sharing all but their last three bytes
    ArrLong,
    /// the first entry holds an array of 16 MiB (0x1000000 bytes, one more than an array length can say), the others a few bytes
    ArrHuge,
    /// content addresses: `packs` distinct pack ids, content ids below `maxid`
    Content { packs: u16, maxid: u32 },
    /// references: pattern over entry numbers
    RefPat(RefPat),
    /// entries are the nodes of a complete `b`-ary tree inserted depth-first: a RefTo column refers to the parent
    /// (the root to itself), a UInt column holds the rank among the siblings
    Tree(u8),
}

#[derive(Clone, Copy, Debug, PartialEq)]
pub enum RefPat {
    Next,
    Prev,
    Self_,
    Perm,
    AllToOne,
    Random,
}

#[derive(Clone, Debug)]
pub struct PDef {
    pub name: String,
    pub kind: PKind,
    pub col: Col,
}

#[derive(Clone, Debug)]
pub struct VariantDef {
    pub name: String,
    pub props: Vec<PDef>,
}

#[derive(Clone, Debug)]
pub struct StoreDef {
    pub n: usize,
    pub common: Vec<PDef>,
    pub variants: Vec<VariantDef>,
    /// names of the sort keys (common properties), None = unsorted
    pub sort: Option<Vec<String>>,
    /// make the tuple of sort keys unique (required by the format for sorted stores)
    pub unique_keys: bool,
}

#[derive(Clone, Debug)]
pub struct IndexDef {
    pub name: String,
    pub store: usize,
    pub offset: u32,
    pub count: u32,
}

#[derive(Clone, Debug)]
pub struct DirCase {
    pub seed: u64,
    /// true = indexed, false = plain
    pub vstores: Vec<bool>,
    pub stores: Vec<StoreDef>,
    pub indexes: Vec<IndexDef>,
    /// how integer values are handed to the creator: 0 = immediate (`Value::Unsigned/Signed`), 1 = a per-entry mix of
    /// immediate and deferred (`Value::UnsignedWord/SignedWord` of a constant), 2 = all deferred. Same values either way.
    pub defer: u8,
    /// seed of the free data (index free data and index key; pack free data where the creation path lets the caller
    /// choose it); 0 = all zero, the creators' default
    pub free: u64,
}

#[derive(Clone, Debug)]
pub struct EntryModel {
    pub variant: Option<usize>,
    /// property name -> value (common + the variant's own)
    pub vals: BTreeMap<String, Val>,
}

// ------------------------------------------------------------------------------------------------
// JSON

fn col_to_json(c: &Col) -> Value {
    match c {
        Col::Const => json!("const"),
        Col::Small => json!("small"),
        Col::Width(w) => json!({"width": w}),
        Col::Full => json!("full"),
        Col::Seq => json!("seq"),
        Col::RevSeq => json!("rev_seq"),
        Col::RefOther(st) => json!({"ref_other": st}),
        Col::Arr { max, alpha } => json!({"arr": [max, alpha]}),
        Col::ArrAroundPrefix => json!("arr_prefix"),
        Col::ArrLen256 => json!("arr_len256"),
        Col::ArrLong => json!("arr_long"),
        Col::ArrHuge => json!("arr_huge"),
        Col::SeqDup => json!("seq_dup"),
        Col::Content { packs, maxid } => json!({"content": [packs, maxid]}),
        Col::Tree(b) => json!({"tree": b}),
        Col::RefPat(p) => json!({"ref": match p {
            RefPat::Next => "next", RefPat::Prev => "prev", RefPat::Self_ => "self", RefPat::Perm => "perm",
            RefPat::AllToOne => "all_to_one", RefPat::Random => "random"}}),
    }
}

fn col_from_json(v: &Value) -> Col {
    if let Some(s) = v.as_str() {
        return match s {
            "const" => Col::Const,
            "small" => Col::Small,
            "full" => Col::Full,
            "seq" => Col::Seq,
            "rev_seq" => Col::RevSeq,
            "arr_prefix" => Col::ArrAroundPrefix,
            "arr_len256" => Col::ArrLen256,
            "arr_long" => Col::ArrLong,
            "arr_huge" => Col::ArrHuge,
            "seq_dup" => Col::SeqDup,
            _ => Col::Small,
        };
    }
    if let Some(w) = v.get("width").and_then(|x| x.as_u64()) {
        return Col::Width(w as u8);
    }
    if let Some(a) = v.get("arr").and_then(|x| x.as_array()) {
        return Col::Arr { max: a[0].as_u64().unwrap_or(8) as u32, alpha: a[1].as_u64().unwrap_or(0) as u8 };
    }
    if let Some(a) = v.get("content").and_then(|x| x.as_array()) {
        return Col::Content { packs: a[0].as_u64().unwrap_or(1) as u16, maxid: a[1].as_u64().unwrap_or(10) as u32 };
    }
    if let Some(st) = v.get("ref_other").and_then(|x| x.as_u64()) {
        return Col::RefOther(st as usize);
    }
    if let Some(b) = v.get("tree").and_then(|x| x.as_u64()) {
        return Col::Tree(b as u8);
    }
    if let Some(s) = v.get("ref").and_then(|x| x.as_str()) {
        return Col::RefPat(match s {
            "next" => RefPat::Next,
            "prev" => RefPat::Prev,
            "self" => RefPat::Self_,
            "perm" => RefPat::Perm,
            "all_to_one" => RefPat::AllToOne,
            _ => RefPat::Random,
        });
    }
    Col::Small
}

fn pdef_to_json(p: &PDef) -> Value {
    let kind = match &p.kind {
        PKind::UInt => json!("uint"),
        PKind::SInt => json!("sint"),
        PKind::Array { prefix, store } => json!({"array": [prefix, store]}),
        PKind::Content => json!("content"),
        PKind::RefTo => json!("ref"),
        PKind::RefToS => json!("sref"),
    };
    json!({"name": p.name, "kind": kind, "col": col_to_json(&p.col)})
}

fn pdef_from_json(v: &Value) -> PDef {
    let k = v.get("kind").cloned().unwrap_or(Value::Null);
    let kind = if let Some(s) = k.as_str() {
        match s {
            "sint" => PKind::SInt,
            "content" => PKind::Content,
            "ref" => PKind::RefTo,
            "sref" => PKind::RefToS,
            _ => PKind::UInt,
        }
    } else if let Some(a) = k.get("array").and_then(|x| x.as_array()) {
        PKind::Array { prefix: a[0].as_u64().unwrap_or(0) as u8, store: a[1].as_u64().unwrap_or(0) as usize }
    } else {
        PKind::UInt
    };
    PDef { name: jstr(v, "name").to_string(), kind, col: col_from_json(v.get("col").unwrap_or(&Value::Null)) }
}

impl DirCase {
    pub fn to_json(&self) -> Value {
        json!({
            "seed": self.seed,
            "defer": self.defer,
            "free": self.free,
            "vstores": self.vstores.iter().map(|i| if *i {"indexed"} else {"plain"}).collect::<Vec<_>>(),
            "stores": self.stores.iter().map(|s| json!({
                "n": s.n,
                "common": s.common.iter().map(pdef_to_json).collect::<Vec<_>>(),
                "variants": s.variants.iter().map(|v| json!({"name": v.name, "props": v.props.iter().map(pdef_to_json).collect::<Vec<_>>()})).collect::<Vec<_>>(),
                "sort": s.sort, "unique_keys": s.unique_keys,
            })).collect::<Vec<_>>(),
            "indexes": self.indexes.iter().map(|i| json!({"name": i.name, "store": i.store, "offset": i.offset, "count": i.count})).collect::<Vec<_>>(),
        })
    }
    pub fn from_json(v: &Value) -> DirCase {
        DirCase {
            seed: ju64(v, "seed"),
            defer: v.get("defer").and_then(|x| x.as_u64()).unwrap_or(0) as u8,
            free: v.get("free").and_then(|x| x.as_u64()).unwrap_or(0),
            vstores: jarr(v, "vstores").iter().map(|x| x.as_str() == Some("indexed")).collect(),
            stores: jarr(v, "stores").iter().map(|s| StoreDef {
                n: ju64(s, "n") as usize,
                common: jarr(s, "common").iter().map(pdef_from_json).collect(),
                variants: jarr(s, "variants").iter().map(|x| VariantDef {
                    name: jstr(x, "name").to_string(),
                    props: jarr(x, "props").iter().map(pdef_from_json).collect(),
                }).collect(),
                sort: s.get("sort").and_then(|x| x.as_array()).map(|a| a.iter().map(|y| y.as_str().unwrap_or("").to_string()).collect()),
                unique_keys: jbool(s, "unique_keys"),
            }).collect(),
            indexes: jarr(v, "indexes").iter().map(|i| IndexDef {
                name: jstr(i, "name").to_string(),
                store: ju64(i, "store") as usize,
                offset: ju64(i, "offset") as u32,
                count: ju64(i, "count") as u32,
            }).collect(),
        }
    }
}

// ------------------------------------------------------------------------------------------------
// value derivation

const UBOUND: [u64; 22] = [
    0, 1, 0x7f, 0x80, 0xff, 0x100, 0x7fff, 0x8000, 0xffff, 0x1_0000, 0xff_ffff, 0x100_0000, 0xffff_ffff, 0x1_0000_0000,
    0xff_ffff_ffff, 0x100_0000_0000, 0xffff_ffff_ffff, 0x1_0000_0000_0000, 0xff_ffff_ffff_ffff, 0x100_0000_0000_0000,
    0x7fff_ffff_ffff_ffff, u64::MAX,
];

fn uint_of_width(rng: &mut Rng, w: u8) -> u64 {
    // values whose byte width is <= w, biased to the extremes of each width
    let w = w.clamp(1, 8) as u32;
    let ww = rng.range(1, w as u64) as u32;
    let max = if ww == 8 { u64::MAX } else { (1u64 << (8 * ww)) - 1 };
    let min = if ww == 1 { 0 } else { 1u64 << (8 * (ww - 1)) };
    match rng.below(4) {
        0 => max,
        1 => min,
        2 => max - rng.below(3).min(max),
        _ => min + rng.below(max - min + 1),
    }
}

fn sint_of_width(rng: &mut Rng, w: u8) -> i64 {
    // signed values representable in ww <= w bytes, biased to ±2^(8k-1) boundaries
    let w = w.clamp(1, 8) as u32;
    let ww = rng.range(1, w as u64) as u32;
    let (min, max) = if ww == 8 { (i64::MIN, i64::MAX) } else { (-(1i64 << (8 * ww - 1)), (1i64 << (8 * ww - 1)) - 1) };
    match rng.below(6) {
        0 => max,
        1 => min,
        2 => max - rng.below(3) as i64,
        3 => min + rng.below(3) as i64,
        4 => -1,
        _ => {
            let span = (max as i128 - min as i128 + 1) as u128;
            (min as i128 + (rng.next() as u128 % span) as i128) as i64
        }
    }
}

fn alphabet(alpha: u8) -> Vec<u8> {
    match alpha {
        0 => (0..=255u8).collect(),
        2 => vec![0x00, 0xff],
        4 => vec![0x00, 0xff, b'a', b'b'],
        n => (0..n).map(|i| b'a'.wrapping_add(i)).collect(),
    }
}

fn gen_array(rng: &mut Rng, max: u32, alpha: u8, shared: &[Vec<u8>]) -> Vec<u8> {
    let al = alphabet(alpha);
    // often extend or cut an earlier array so that keys share prefixes / are prefixes of one another
    if !shared.is_empty() && rng.chance(1, 2) {
        let base = rng.pick(shared).clone();
        return match rng.below(4) {
            0 => {
                let cut = rng.usize_below(base.len() + 1);
                base[..cut].to_vec()
            }
            1 => {
                let mut b = base;
                if (b.len() as u32) < max {
                    b.push(*rng.pick(&al));
                }
                b
            }
            2 => {
                let mut b = base;
                if let Some(l) = b.last_mut() {
                    *l = *rng.pick(&al);
                }
                b
            }
            _ => {
                let mut b = base;
                let extra = rng.below(4);
                for _ in 0..extra {
                    if (b.len() as u32) < max {
                        b.push(*rng.pick(&al));
                    }
                }
                b
            }
        };
    }
    let len = match rng.below(5) {
        0 => 0,
        1 => rng.below(4),
        _ => rng.below(max as u64 + 1),
    } as usize;
    (0..len).map(|_| *rng.pick(&al)).collect()
}

impl StoreDef {
    pub fn props_of(&self, variant: Option<usize>) -> Vec<&PDef> {
        let mut v: Vec<&PDef> = self.common.iter().collect();
        if let Some(i) = variant {
            v.extend(self.variants[i].props.iter());
        }
        v
    }
}

/// Expand the entries of store `si` (insertion order).
pub fn expand(case: &DirCase, si: usize) -> Vec<EntryModel> {
    let st = &case.stores[si];
    let n = st.n;
    let base = mix(case.seed ^ mix(si as u64 + 1));
    // permutation for RefPat::Perm
    let mut perm: Vec<usize> = (0..n).collect();
    Rng::new(base ^ 0x7065726d).shuffle(&mut perm);
    // variant of each entry
    let mut vr = Rng::new(base ^ 0x766172);
    let variants: Vec<Option<usize>> = (0..n)
        .map(|_| if st.variants.is_empty() { None } else { Some(vr.usize_below(st.variants.len())) })
        .collect();
    let mut entries: Vec<EntryModel> = variants.iter().map(|v| EntryModel { variant: *v, vals: BTreeMap::new() }).collect();
    // columns: common first, then per variant
    let mut columns: Vec<(Option<usize>, &PDef)> = st.common.iter().map(|p| (None, p)).collect();
    for (vi, v) in st.variants.iter().enumerate() {
        for p in &v.props {
            columns.push((Some(vi), p));
        }
    }
    for (ci, (vfilter, p)) in columns.iter().enumerate() {
        let mut rng = Rng::new(base ^ mix(0x636f6c ^ ci as u64));
        let cval_u = uint_of_width(&mut rng.clone(), 8);
        let cval_s = sint_of_width(&mut rng.clone(), 8);
        let carr = gen_array(&mut rng.clone(), 40, 0, &[]);
        let mut shared: Vec<Vec<u8>> = vec![];
        for e in 0..n {
            if let Some(vi) = vfilter {
                if variants[e] != Some(*vi) {
                    continue;
                }
            }
            let val = match (&p.kind, &p.col) {
                (PKind::UInt, Col::Tree(b)) => Val::U(tree_dfs(n, *b as usize)[e].1 as u64),
                // the root (first inserted) holds the plain value 0 instead of a deferred reference to itself: the column
                // mixes immediate and deferred values, which the writer's sort has to compare with one another
                (PKind::RefTo, Col::Tree(_)) if e == 0 => Val::U(0),
                (PKind::RefToS, Col::Tree(_)) if e == 0 => Val::S(0),
                (PKind::RefTo | PKind::RefToS, Col::Tree(b)) => Val::Ref(tree_dfs(n, *b as usize)[e].0),
                (PKind::UInt, Col::Const) => Val::U(cval_u),
                (PKind::UInt, Col::Small) => Val::U(rng.below(200)),
                (PKind::UInt, Col::Width(w)) => Val::U(uint_of_width(&mut rng, *w)),
                (PKind::UInt, Col::Seq) => Val::U(e as u64),
                (PKind::UInt, Col::RevSeq) => Val::U((n - 1 - e) as u64),
                (PKind::RefTo, Col::RefOther(ts)) => {
                    let tn = case.stores.get(*ts).map(|s| s.n).unwrap_or(0);
                    if tn == 0 || *ts == si {
                        Val::U(0)
                    } else {
                        if case.seed % 2 == 1 {
                            // only entries inserted early (low provisional positions; where they end up is the sort's business)
                            Val::RefO(*ts, (e * 3) % tn.min(16))
                        } else {
                            // first, last, then spread
                            Val::RefO(*ts, match e { 0 => 0, 1 => tn - 1, _ => (e.wrapping_mul(2_654_435_761)) % tn })
                        }
                    }
                }
                (PKind::UInt, _) => Val::U(if rng.chance(1, 3) { *rng.pick(&UBOUND) } else { rng.next() }),
                (PKind::SInt, Col::Const) => Val::S(cval_s),
                (PKind::SInt, Col::Small) => Val::S(rng.below(200) as i64 - 100),
                (PKind::SInt, Col::Width(w)) => Val::S(sint_of_width(&mut rng, *w)),
                (PKind::SInt, Col::Seq) => Val::S(e as i64 - (n as i64) / 2),
                (PKind::SInt, _) => Val::S(sint_of_width(&mut rng, 8)),
                (PKind::Array { .. }, Col::Const) => Val::A(carr.clone()),
                (PKind::Array { prefix, .. }, Col::ArrAroundPrefix) => {
                    let p = *prefix as usize;
                    let len = *rng.pick(&[0usize, p.saturating_sub(1), p, p + 1, p + 2]);
                    Val::A(rng.bytes(len))
                }
                (PKind::Array { .. }, Col::ArrLen256) => {
                    let len = *rng.pick(&[0usize, 1, 254, 255, 256, 257]);
                    Val::A(rng.bytes(len))
                }
                (PKind::Array { .. }, Col::ArrLong) => {
                    let len = *rng.pick(&[254usize, 255, 256, 256, 257, 258, 259, 260, 300, 511, 512, 513, 1024]);
                    let mut a: Vec<u8> = (0..len).map(|i| b'a' + (i % 7) as u8).collect();
                    let tail = rng.bytes(3);
                    a[len - 3..].copy_from_slice(&tail);
                    Val::A(a)
                }
                (PKind::Array { .. }, Col::ArrHuge) => {
                    if e == 0 {
                        let mut a = vec![b'h'; 0x100_0000];
                        let tail = rng.bytes(8);
                        a[..8].copy_from_slice(&tail);
                        Val::A(a)
                    } else {
                        Val::A(format!("s{e:03}").into_bytes())
                    }
                }
                (PKind::Array { .. }, Col::Seq) => Val::A(format!("k{e:07}").into_bytes()),
                (PKind::Array { .. }, Col::SeqDup) => {
                    let fresh = n - n / 16;
                    let src = if e < fresh || fresh < 2 { e } else { 1 + (e.wrapping_mul(2_654_435_761) % (fresh - 1)) };
                    Val::A(format!("k{src:07}").into_bytes())
                }
                (PKind::Array { .. }, Col::Arr { max, alpha }) => {
                    let a = gen_array(&mut rng, *max, *alpha, &shared);
                    if shared.len() < 64 {
                        shared.push(a.clone());
                    } else {
                        let j = rng.usize_below(64);
                        shared[j] = a.clone();
                    }
                    Val::A(a)
                }
                (PKind::Array { .. }, _) => Val::A(gen_array(&mut rng, 24, 0, &[])),
                (PKind::Content, Col::Const) => Val::C(1, 3),
                (PKind::Content, Col::Content { packs: 0, maxid }) => Val::C(*maxid as u16, rng.below(50_000) as u32),
                (PKind::Content, Col::Content { packs, maxid }) => {
                    let pk = 1 + rng.below(*packs as u64) as u16 * if *packs > 200 { 3 } else { 1 };
                    let cid = match rng.below(3) {
                        0 => maxid.saturating_sub(1),
                        1 => 0,
                        _ => rng.below(*maxid as u64) as u32,
                    };
                    Val::C(pk, cid)
                }
                (PKind::Content, _) => Val::C(1, rng.below(1000) as u32),
                (PKind::RefTo | PKind::RefToS, Col::RefPat(pat)) => Val::Ref(match pat {
                    RefPat::Next => (e + 1) % n,
                    RefPat::Prev => (e + n - 1) % n,
                    RefPat::Self_ => e,
                    RefPat::Perm => perm[e],
                    RefPat::AllToOne => n / 2,
                    RefPat::Random => rng.usize_below(n),
                }),
                (PKind::RefTo | PKind::RefToS, _) => Val::Ref(rng.usize_below(n)),
            };
            entries[e].vals.insert(p.name.clone(), val);
        }
    }
    if st.unique_keys {
        if let Some(keys) = &st.sort {
            // make the key tuple unique: bump the *last* key of later duplicates deterministically
            let mut seen: std::collections::BTreeSet<Vec<Val2>> = Default::default();
            let last = keys.last().unwrap().clone();
            for e in 0..n {
                let mut guard = 0u64;
                loop {
                    let tuple: Vec<Val2> = keys.iter().map(|k| Val2(entries[e].vals[k].clone())).collect();
                    if seen.insert(tuple) {
                        break;
                    }
                    guard += 1;
                    let v = entries[e].vals.get_mut(&last).unwrap();
                    match v {
                        Val::U(x) => *x = x.wrapping_add(mix(guard ^ e as u64) | 1),
                        Val::S(x) => *x = x.wrapping_add((mix(guard ^ e as u64) | 1) as i64),
                        Val::A(a) => {
                            a.push((mix(guard ^ e as u64) & 0xff) as u8);
                        }
                        _ => break,
                    }
                }
            }
        }
    }
    entries
}

/// Complete b-ary tree of n nodes (breadth-first ids), listed depth-first: for insertion number e the pair
/// (insertion number of the parent, rank among siblings). The root is its own parent.
pub fn tree_dfs(n: usize, b: usize) -> Vec<(usize, usize)> {
    let b = b.max(2);
    let mut order = Vec::with_capacity(n); // bfs ids in dfs order
    let mut stack = vec![0usize];
    while let Some(x) = stack.pop() {
        if x >= n {
            continue;
        }
        order.push(x);
        for c in (0..b).rev() {
            stack.push(x * b + 1 + c);
        }
    }
    let mut pos = vec![0usize; n];
    for (e, x) in order.iter().enumerate() {
        pos[*x] = e;
    }
    order.iter().map(|x| if *x == 0 { (pos[0], 0) } else { (pos[(*x - 1) / b], (*x - 1) % b + 1) }).collect()
}

/// wrapper giving `Val` a total order for sets (reader order, arrays bytewise)
#[derive(Clone, Debug, PartialEq, Eq)]
pub struct Val2(pub Val);
impl PartialOrd for Val2 {
    fn partial_cmp(&self, o: &Self) -> Option<Ordering> {
        Some(self.cmp(o))
    }
}
impl Ord for Val2 {
    fn cmp(&self, o: &Self) -> Ordering {
        self.0.cmp_reader(&o.0)
    }
}

/// Expected final order of a store: identity when unsorted, else sorted by the keys as the reader compares.
/// Returns `order[final position] = insertion number`.
pub fn final_order(st: &StoreDef, entries: &[EntryModel]) -> Vec<usize> {
    let mut order: Vec<usize> = (0..entries.len()).collect();
    if let Some(keys) = &st.sort {
        order.sort_by(|a, b| {
            for k in keys {
                let c = entries[*a].vals[k].cmp_reader(&entries[*b].vals[k]);
                if c != Ordering::Equal {
                    return c;
                }
            }
            Ordering::Equal
        });
    }
    order
}

// ------------------------------------------------------------------------------------------------
// creation through the library

pub fn leak(s: &str) -> &'static str {
    // names must be 'static for the creator's PropertyName/VariantName; a few bytes per case
    Box::leak(s.to_string().into_boxed_str())
}

type BEntry = jbk::creator::BasicEntry<&'static str, &'static str>;
type EStore = jbk::creator::EntryStore<&'static str, &'static str, BEntry>;
/// the same store with boxed entries (`EntryTrait` / `FullEntryTrait` are implemented for `Box<T>`)
type EStoreBoxed = jbk::creator::EntryStore<&'static str, &'static str, Box<BEntry>>;

/// A third of the cases hand their entries over boxed (decided by the case seed, so that a case always does the same).
pub fn boxed_entries(case: &DirCase) -> bool {
    case.seed % 3 == 0
}

pub enum AnyStore {
    Plain(Box<EStore>),
    Boxed(Box<EStoreBoxed>),
}

pub struct Built {
    pub value_stores: Vec<jbk::creator::StoreHandle>,
    pub entry_stores: Vec<AnyStore>,
    /// per store, per insertion number: the handle `add_entry` returned
    pub handles: Vec<Vec<jbk::Bound<jbk::EntryIdx>>>,
    pub models: Vec<Vec<EntryModel>>,
}

fn make_prop(p: &PDef, vstores: &[jbk::creator::StoreHandle]) -> schema::Property<&'static str> {
    let name = leak(&p.name);
    match &p.kind {
        PKind::UInt | PKind::RefTo => schema::Property::new_uint(name),
        PKind::RefToS => schema::Property::new_sint(name),
        PKind::SInt => schema::Property::new_sint(name),
        PKind::Array { prefix, store } => schema::Property::new_array(*prefix as usize, vstores[*store].clone(), name),
        PKind::Content => schema::Property::new_content_address(name),
    }
}

/// Build value stores and entry stores (entries added, nothing finalised).
pub fn build(case: &DirCase) -> Built {
    let value_stores: Vec<jbk::creator::StoreHandle> = case
        .vstores
        .iter()
        .map(|indexed| if *indexed { jbk::creator::ValueStore::new_indexed() } else { jbk::creator::ValueStore::new_plain(None) })
        .collect();
    let mut entry_stores = vec![];
    let mut handles = vec![];
    let mut models = vec![];
    // the vows of every store are created and bound first (an entry may refer to an entry of another store)
    let mut all_vows: Vec<Vec<jbk::Vow<jbk::EntryIdx>>> = case.stores.iter().map(|st| (0..st.n).map(|_| Default::default()).collect()).collect();
    let all_binds: Vec<Vec<jbk::Bound<jbk::EntryIdx>>> = all_vows.iter().map(|vs| vs.iter().map(|v| v.bind()).collect()).collect();
    for (si, st) in case.stores.iter().enumerate() {
        let sch = schema::Schema::<&'static str, &'static str>::new(
            schema::CommonProperties::new(st.common.iter().map(|p| make_prop(p, &value_stores)).collect()),
            st.variants
                .iter()
                .map(|v| (leak(&v.name), schema::VariantProperties::new(v.props.iter().map(|p| make_prop(p, &value_stores)).collect())))
                .collect(),
            st.sort.as_ref().map(|ks| ks.iter().map(|k| leak(k)).collect()),
        );
        let mut store = if boxed_entries(case) {
            AnyStore::Boxed(Box::new(jbk::creator::EntryStore::new(sch, Some(st.n))))
        } else {
            AnyStore::Plain(Box::new(jbk::creator::EntryStore::new(sch, Some(st.n))))
        };
        let model = expand(case, si);
        // all vows are created and bound first, then moved into their entries
        let vows: Vec<jbk::Vow<jbk::EntryIdx>> = std::mem::take(&mut all_vows[si]);
        let binds: &Vec<jbk::Bound<jbk::EntryIdx>> = &all_binds[si];
        let mut hs = Vec::with_capacity(st.n);
        for (e, vow) in vows.into_iter().enumerate() {
            let em = &model[e];
            let mut values: HashMap<&'static str, jbk::Value> = HashMap::new();
            for p in st.props_of(em.variant) {
                let name = leak(&p.name);
                let v = match &em.vals[&p.name] {
                    Val::U(x) if deferred(case, si, e, &p.name) => jbk::Value::UnsignedWord((*x).into()),
                    Val::S(x) if deferred(case, si, e, &p.name) => jbk::Value::SignedWord((*x).into()),
                    Val::U(x) => jbk::Value::Unsigned(*x),
                    Val::S(x) => jbk::Value::Signed(*x),
                    Val::A(a) => jbk::Value::Array(a.as_slice().into()),
                    Val::C(pk, c) => jbk::Value::Content(jbk::ContentAddress::new(jbk::PackId::from(*pk), jbk::ContentIdx::from(*c))),
                    Val::Ref(t) if p.kind == PKind::RefToS => {
                        // a closure reading the target's handle when the value is needed
                        let b = binds[*t].clone();
                        let f: Box<dyn Fn() -> i64 + Sync + Send> = Box::new(move || b.get().into_u32() as i64);
                        jbk::Value::SignedWord(f.into())
                    }
                    Val::Ref(t) => jbk::Value::UnsignedWord(binds[*t].clone().into()),
                    Val::RefO(ts, t) => jbk::Value::UnsignedWord(all_binds[*ts][*t].clone().into()),
                };
                values.insert(name, v);
            }
            let vname = em.variant.map(|i| leak(&st.variants[i].name));
            match &mut store {
                AnyStore::Plain(store) => {
                    let entry = jbk::creator::BasicEntry::new_from_schema_idx(&store.schema, vow, vname, values);
                    hs.push(store.add_entry(entry));
                }
                AnyStore::Boxed(store) => {
                    let entry = jbk::creator::BasicEntry::new_from_schema_idx(&store.schema, vow, vname, values);
                    hs.push(store.add_entry(Box::new(entry)));
                }
            }
        }
        entry_stores.push(store);
        handles.push(hs);
        models.push(model);
    }
    Built { value_stores, entry_stores, handles, models }
}

/// What a reference to the entry that ends up at position `pos` reads back as, in property `name` of store `st`.
pub fn resolved_ref(st: &StoreDef, name: &str, pos: usize) -> Val {
    let signed = st.common.iter().chain(st.variants.iter().flat_map(|v| v.props.iter())).any(|p| p.name == name && p.kind == PKind::RefToS);
    if signed {
        Val::S(pos as i64)
    } else {
        Val::U(pos as u64)
    }
}

/// Is the integer value of property `name` of entry `e` (insertion order) of store `si` handed over as a deferred word?
pub fn deferred(case: &DirCase, si: usize, e: usize, name: &str) -> bool {
    match case.defer {
        0 => false,
        2 => true,
        _ => {
            let mut h = case.seed ^ (si as u64).wrapping_mul(0x9E37_79B9_7F4A_7C15) ^ (e as u64).wrapping_mul(0xD6E8_FEB8_6659_FD93);
            for b in name.bytes() {
                h = (h ^ b as u64).wrapping_mul(0x100_0000_01B3);
            }
            h ^= h >> 29;
            (h.wrapping_mul(0xBF58_476D_1CE4_E5B9) >> 40) & 1 == 1
        }
    }
}

pub struct Installed {
    pub handles: Vec<Vec<jbk::Bound<jbk::EntryIdx>>>,
    pub models: Vec<Vec<EntryModel>>,
}

/// Move everything into a DirectoryPackCreator (value stores, entry stores, indexes).
pub fn install(case: &DirCase, built: Built, creator: &mut jbk::creator::DirectoryPackCreator) -> Installed {
    for vs in &built.value_stores {
        creator.add_value_store(vs.clone());
    }
    let mut ids = vec![];
    for es in built.entry_stores {
        ids.push(match es {
            AnyStore::Plain(s) => creator.add_entry_store(s),
            AnyStore::Boxed(s) => creator.add_entry_store(s),
        });
    }
    for ix in &case.indexes {
        // The window's first entry is given either as a constant position or (half of the windows of a case with a
        // free-data seed, when the model can predict the final order) as the handle of the entry that ends up there:
        // a deferred position, resolved when the pack is written.
        let st = &case.stores[ix.store];
        let predictable = match &st.sort {
            None => true,
            Some(keys) => st.unique_keys && keys.iter().all(|k| st.common.iter().any(|p| &p.name == k && !matches!(p.kind, PKind::RefTo | PKind::RefToS))),
        };
        let by_handle = case.free != 0 && predictable && (ix.offset as usize) < st.n && free_bytes(case.free, &format!("offset:{}", ix.name), 1)[0] & 1 == 1;
        let (free, key, count) = (index_free(case, &ix.name), jbk::PropertyIdx::from(index_key(case, ix)), jbk::EntryCount::from(ix.count));
        if by_handle {
            let e = final_order(st, &built.models[ix.store])[ix.offset as usize];
            creator.create_index(&ix.name, free.into(), key, ids[ix.store], count, built.handles[ix.store][e].clone().into());
        } else {
            creator.create_index(&ix.name, free.into(), key, ids[ix.store], count, jbk::EntryIdx::from(ix.offset).into());
        }
    }
    Installed { handles: built.handles, models: built.models }
}

/// `n` free bytes for the thing called `tag` (all zero when the case has no free-data seed).
pub fn free_bytes(seed: u64, tag: &str, n: usize) -> Vec<u8> {
    if seed == 0 {
        return vec![0; n];
    }
    let mut h = seed;
    for b in tag.bytes() {
        h = (h ^ b as u64).wrapping_mul(0x100_0000_01B3);
    }
    let mut out = Vec::with_capacity(n + 8);
    let mut i = 0u64;
    while out.len() < n {
        let mut x = h ^ i.wrapping_mul(0x9E37_79B9_7F4A_7C15);
        x ^= x >> 30;
        x = x.wrapping_mul(0xBF58_476D_1CE4_E5B9);
        x ^= x >> 27;
        out.extend_from_slice(&x.to_le_bytes());
        i += 1;
    }
    out.truncate(n);
    out
}

pub fn pack_free(seed: u64, tag: &str) -> [u8; 24] {
    let mut a = [0u8; 24];
    a.copy_from_slice(&free_bytes(seed, tag, 24));
    a
}

pub fn index_free(case: &DirCase, name: &str) -> [u8; 4] {
    let mut a = [0u8; 4];
    a.copy_from_slice(&free_bytes(case.free, &format!("index:{name}"), 4));
    a
}

/// The property an index declares as its key (free choice of the writer; 0 by default).
pub fn index_key(case: &DirCase, ix: &IndexDef) -> u8 {
    let n = case.stores[ix.store].common.len().max(1);
    (free_bytes(case.free, &format!("key:{}", ix.name), 1)[0] as usize % n) as u8
}

/// Create the directory pack as a bare pack file.
pub fn create_bare(case: &DirCase, path: &Path) -> Result<Installed, String> {
    let built = build(case);
    let mut creator = jbk::creator::DirectoryPackCreator::new(jbk::PackId::from(0), crate::content::vendor(), pack_free(case.free, "directory").into());
    let inst = install(case, built, &mut creator);
    let mut file = std::fs::OpenOptions::new().read(true).write(true).create(true).truncate(true).open(path).map_err(|e| e.to_string())?;
    let fin = creator.finalize().map_err(|e| format!("finalize: {e}"))?;
    fin.write(&mut file).map_err(|e| format!("write: {e}"))?;
    Ok(inst)
}

/// Same through an in-memory cursor; returns the bytes.
pub fn create_mem(case: &DirCase) -> Result<(Installed, Vec<u8>), String> {
    let built = build(case);
    let mut creator = jbk::creator::DirectoryPackCreator::new(jbk::PackId::from(0), crate::content::vendor(), pack_free(case.free, "directory").into());
    let inst = install(case, built, &mut creator);
    let mut cur = std::io::Cursor::new(Vec::new());
    let fin = creator.finalize().map_err(|e| format!("finalize: {e}"))?;
    fin.write(&mut cur).map_err(|e| format!("write: {e}"))?;
    Ok((inst, cur.into_inner()))
}

/// `EntryStoreTrait` adaptor for `BasicCreator::finalize`.
pub struct DirInstaller {
    pub case: DirCase,
    pub built: Option<Built>,
    pub out: Arc<std::sync::Mutex<Option<Installed>>>,
}

impl jbk::creator::EntryStoreTrait for DirInstaller {
    fn finalize(mut self: Box<Self>, directory_pack: &mut jbk::creator::DirectoryPackCreator) {
        let built = self.built.take().expect("built once");
        let inst = install(&self.case, built, directory_pack);
        *self.out.lock().unwrap() = Some(inst);
    }
}

// ------------------------------------------------------------------------------------------------
// reading through the library

#[derive(Clone, Debug, PartialEq)]
pub struct ReadEntry {
    pub variant: Option<String>,
    pub vals: BTreeMap<String, Val>,
    /// names asked that answered None
    pub absent: Vec<String>,
}

pub type LazyEntry = <jbk::reader::builder::AnyBuilder as jbk::reader::builder::BuilderTrait>::Entry;

pub fn raw_to_val(r: &jbk::reader::RawValue) -> Result<Val, String> {
    let v = raw_to_val_inner(r)?;
    // the other views of the same raw value agree with it: the owned `get()` conversion and the typed accessors
    let owned = r.get().map_err(|e| format!("RawValue::get: {e}"))?;
    let same = match (&v, &owned) {
        (Val::U(a), jbk::Value::Unsigned(b)) => a == b && r.as_unsigned() == *a,
        (Val::S(a), jbk::Value::Signed(b)) => a == b && r.as_signed() == *a,
        (Val::A(a), jbk::Value::Array(b)) => a.as_slice() == &b[..],
        (Val::C(p, c), jbk::Value::Content(b)) => {
            let t = r.as_content();
            b.pack_id.into_u16() == *p && b.content_id.into_u32() == *c && t.pack_id.into_u16() == *p && t.content_id.into_u32() == *c
        }
        _ => false,
    };
    if !same {
        return Err(format!("RawValue::get()/as_*() give {owned:?} where the raw value is {}", v.brief()));
    }
    Ok(v)
}

fn raw_to_val_inner(r: &jbk::reader::RawValue) -> Result<Val, String> {
    use jbk::reader::RawValue as R;
    Ok(match r {
        R::Content(c) => Val::C(c.pack_id.into_u16(), c.content_id.into_u32()),
        R::U8(v) => Val::U(*v as u64),
        R::U16(v) => Val::U(*v as u64),
        R::U32(v) => Val::U(*v as u64),
        R::U64(v) => Val::U(*v),
        R::I8(v) => Val::S(*v as i64),
        R::I16(v) => Val::S(*v as i64),
        R::I32(v) => Val::S(*v as i64),
        R::I64(v) => Val::S(*v),
        R::Array(a) => {
            let v = r.as_vec().map_err(|e| format!("as_vec: {e}"))?;
            if let Some(sz) = a.size() {
                if sz != v.len() {
                    return Err(format!("Array::size() {} != resolved length {}", sz, v.len()));
                }
            }
            Val::A(v.to_vec())
        }
    })
}

/// The value of property `name` of the entry at absolute position `idx` of `store`, read through the TYPED property
/// builders (`layout::Property::as_builder::<IntProperty | SignedProperty | ArrayProperty | ContentProperty>` + `create` on
/// the entry's bytes), the way `layout_builder!` users do. `variant` = the entry's variant name when the property is one of
/// its own. None = no typed builder accepts the property.
pub fn typed_read(store: &jbk::reader::EntryStore, vstorage: &jbk::reader::ValueStorage, idx: jbk::EntryIdx, variant: Option<&str>, name: &str) -> Result<Option<Val>, String> {
    use jbk::reader::builder::{ArrayProperty, ContentProperty, IntProperty, PropertyBuilderTrait, SignedProperty};
    let layout = store.layout();
    let prop = match layout.common.get(leak(name)) {
        Some(p) => p,
        None => match variant.and_then(|v| layout.get_variant(leak(v))).and_then(|vp| vp.get(leak(name))) {
            Some(p) => p,
            None => return Ok(None),
        },
    };
    let reader = store.get_entry_reader(idx).ok_or("get_entry_reader: no such entry")?;
    if let Some(b) = prop.as_builder::<IntProperty, _>(vstorage).map_err(|e| format!("as_builder<IntProperty>: {e}"))? {
        return Ok(Some(Val::U(b.create(&reader).map_err(|e| format!("IntProperty::create: {e}"))?)));
    }
    if let Some(b) = prop.as_builder::<SignedProperty, _>(vstorage).map_err(|e| format!("as_builder<SignedProperty>: {e}"))? {
        return Ok(Some(Val::S(b.create(&reader).map_err(|e| format!("SignedProperty::create: {e}"))?)));
    }
    if let Some(b) = prop.as_builder::<ContentProperty, _>(vstorage).map_err(|e| format!("as_builder<ContentProperty>: {e}"))? {
        let c = b.create(&reader).map_err(|e| format!("ContentProperty::create: {e}"))?;
        return Ok(Some(Val::C(c.pack_id.into_u16(), c.content_id.into_u32())));
    }
    if let Some(b) = prop.as_builder::<ArrayProperty, _>(vstorage).map_err(|e| format!("as_builder<ArrayProperty>: {e}"))? {
        let a = b.create(&reader).map_err(|e| format!("ArrayProperty::create: {e}"))?;
        let mut v = jbk::SmallBytes::new();
        a.resolve_to_vec(&mut v).map_err(|e| format!("Array::resolve_to_vec: {e}"))?;
        return Ok(Some(Val::A(v.to_vec())));
    }
    Ok(None)
}

/// Variant names by id, from the reader's layout.
pub fn variant_names(store: &jbk::reader::EntryStore) -> Vec<String> {
    let mut names: Vec<(u8, String)> = vec![];
    if let Some(vp) = &store.layout().variant_part {
        for (k, v) in vp.names.iter() {
            names.push((*v, k.to_string()));
        }
    }
    names.sort();
    names.into_iter().map(|(_, n)| n).collect()
}

/// All property names the reader's layout knows (common, then per variant).
pub fn layout_names(store: &jbk::reader::EntryStore) -> (Vec<String>, Vec<Vec<String>>) {
    let l = store.layout();
    let mut common: Vec<String> = l.common.iter().map(|(n, _)| n.to_string()).collect();
    common.sort();
    let mut vars = vec![];
    if let Some(vp) = &l.variant_part {
        for v in vp.variants.iter() {
            let mut names: Vec<String> = v.iter().map(|(n, _)| n.to_string()).collect();
            names.sort();
            vars.push(names);
        }
    }
    (common, vars)
}

pub fn read_entry(
    entry: &LazyEntry,
    vnames: &[String],
    ask: &[String],
) -> Result<ReadEntry, String> {
    let variant = match entry.get_variant_id().map_err(|e| format!("get_variant_id: {e}"))? {
        None => None,
        Some(v) => Some(vnames.get(v.into_u8() as usize).cloned().unwrap_or_else(|| format!("<variant id {} without name>", v.into_u8()))),
    };
    let mut vals = BTreeMap::new();
    let mut absent = vec![];
    for name in ask {
        match entry.get_value(name).map_err(|e| format!("get_value({name}): {e}"))? {
            None => absent.push(name.clone()),
            Some(raw) => {
                vals.insert(name.clone(), raw_to_val(&raw).map_err(|e| format!("{name}: {e}"))?);
            }
        }
    }
    Ok(ReadEntry { variant, vals, absent })
}

// ------------------------------------------------------------------------------------------------
// fingerprint / observation helpers

pub fn observe(case: &DirCase, out: &mut CaseOut) {
    let mut fp = Fp::new();
    fp.u(case.defer as u64);
    out.obs.inc(&format!("integers_handed_over.{}", ["immediate", "mixed", "deferred"][case.defer.min(2) as usize]));
    let mut props = 0usize;
    let mut has_variant_or_ref = false;
    let mut entries = 0usize;
    for st in &case.stores {
        fp.u(st.common.len() as u64).u(st.variants.len() as u64).u(entry_class(st.n)).u(st.sort.is_some() as u64);
        for p in st.common.iter().chain(st.variants.iter().flat_map(|v| v.props.iter())) {
            props += 1;
            let k = match &p.kind {
                PKind::UInt => "uint".to_string(),
                PKind::SInt => "sint".to_string(),
                PKind::Array { prefix, store } => {
                    out.obs.set("array_prefix", format!("{prefix}"));
                    format!("arr{}{}", prefix, if case.vstores[*store] { "i" } else { "p" })
                }
                PKind::Content => "content".to_string(),
                PKind::RefTo | PKind::RefToS => {
                    has_variant_or_ref = true;
                    if p.kind == PKind::RefToS { "sref".to_string() } else { "ref".to_string() }
                }
            };
            out.obs.inc(&format!("columns.{}", k.trim_end_matches(char::is_numeric)));
            fp.s(&k).s(&format!("{:?}", p.col));
        }
        if !st.variants.is_empty() {
            has_variant_or_ref = true;
            out.obs.inc("stores_with_variants");
        }
        if st.sort.is_some() {
            out.obs.inc("stores_sorted");
        }
        entries += st.n;
        out.obs.max("entries_in_one_store", st.n as u64);
    }
    for ix in &case.indexes {
        fp.u(ix.offset.min(2) as u64).u((ix.count as usize == case.stores[ix.store].n) as u64);
    }
    fp.u(case.vstores.len() as u64);
    out.fp = fp.hex();
    out.nontrivial = entries >= 1 && (props >= 2 || has_variant_or_ref);
    out.obs.add("entries", entries as u64);
    out.obs.add("stores", case.stores.len() as u64);
    out.obs.add("indexes", case.indexes.len() as u64);
}

fn entry_class(n: usize) -> u64 {
    match n {
        0 => 0,
        1 => 1,
        2..=255 => 2,
        256..=65535 => 3,
        _ => 4,
    }
}

// ------------------------------------------------------------------------------------------------
// representability (model side)

#[derive(Clone, Copy, PartialEq, Eq, Debug)]
pub enum Repr {
    Yes,
    No,
    /// too close to a limit for the model to tell: creation may succeed or be refused
    Borderline,
}

fn bytes_needed(mut v: u64) -> u64 {
    let mut n = 0;
    while v > 0 {
        v >>= 8;
        n += 1;
    }
    n.max(1)
}

/// Can `case` be represented in the format? Limits modelled: the size of a tail fits 16 bits (indexed value store
/// tails grow with the number of distinct values, entry store tails with the number and names of the properties),
/// at most 255 key infos and 255 variants per entry store.
pub fn representable(case: &DirCase, models: &[Vec<EntryModel>]) -> (Repr, String) {
    let mut findings: Vec<(Repr, String)> = vec![];
    let mut judge = |size: u64, what: String| {
        let r = if size > 69_000 {
            Repr::No
        } else if size > 62_000 {
            Repr::Borderline
        } else {
            Repr::Yes
        };
        if r != Repr::Yes {
            findings.push((r, format!("{what}: about {size} bytes of tail")));
        }
    };
    // an array length is stored on at most three bytes
    for (si, m) in models.iter().enumerate() {
        let st = &case.stores[si];
        for e in m {
            for (name, v) in &e.vals {
                if let Val::A(a) = v {
                    // (an array kept whole in an indexed store, without inline prefix, is designated by its key only: no length is stored)
                    let by_key_only = st.common.iter().chain(st.variants.iter().flat_map(|v| v.props.iter())).any(|p| &p.name == name && matches!(p.kind, PKind::Array { prefix: 0, store } if case.vstores.get(store).copied().unwrap_or(false)));
                    if a.len() > 0xFF_FFFF && !by_key_only {
                        return (Repr::No, format!("entry store {si} property {name}: an array of {} bytes (an array length takes three bytes at most)", a.len()));
                    }
                }
            }
        }
    }
    // indexed value stores: distinct stored parts over every column using the store
    for (vi, indexed) in case.vstores.iter().enumerate() {
        if !*indexed {
            continue;
        }
        let mut distinct: std::collections::HashSet<&[u8]> = Default::default();
        for (si, st) in case.stores.iter().enumerate() {
            for p in st.common.iter().chain(st.variants.iter().flat_map(|v| v.props.iter())) {
                if let PKind::Array { prefix, store } = &p.kind {
                    if *store != vi {
                        continue;
                    }
                    for e in &models[si] {
                        if let Some(Val::A(a)) = e.vals.get(&p.name) {
                            let cut = (*prefix as usize).min(a.len());
                            distinct.insert(&a[cut..]);
                        }
                    }
                }
            }
        }
        let d = distinct.len() as u64;
        let s: u64 = distinct.iter().map(|x| x.len() as u64).sum();
        let w = bytes_needed(s);
        judge(10 + w + w * d.saturating_sub(1), format!("indexed value store {vi} with {d} distinct values"));
    }
    for (si, st) in case.stores.iter().enumerate() {
        let props: Vec<&PDef> = st.common.iter().chain(st.variants.iter().flat_map(|v| v.props.iter())).collect();
        let keys = props.len() + st.variants.len();
        if keys > 255 || st.variants.len() > 255 {
            return (Repr::No, format!("entry store {si} needs {keys} key infos"));
        }
        if keys > 230 {
            // paddings add key infos the model does not count exactly
            judge(65_000, format!("entry store {si} needs about {keys} key infos"));
        }
        let tail: u64 = 10 + props.iter().map(|p| 2 + p.name.len() as u64 + 12).sum::<u64>() + st.variants.iter().map(|v| 2 + v.name.len() as u64).sum::<u64>();
        judge(tail, format!("entry store {si} with {} properties", props.len()));
    }
    if let Some(f) = findings.iter().find(|f| f.0 == Repr::No) {
        return f.clone();
    }
    findings.into_iter().next().unwrap_or((Repr::Yes, String::new()))
}
