//! C01 — stored content reads back byte-identical at the address returned on insertion.
//! (C16 reuses the generator and the creation step, see c16.rs.)

use crate::content::*;
use crate::proto::*;
use crate::rng::{Fp, Rng};
use crate::util::{self, Scratch};
use jubako as jbk;
use jubako::creator::{BasicCreator, CachedContentAdder, ConcatMode, ContentPackCreator};
use jubako::reader::{Container, ContentPack, MayMissPack};
use serde_json::{json, Value};
use std::io::Read;
use std::path::{Path, PathBuf};
use std::rc::Rc;
use std::sync::Arc;

#[derive(Clone, Copy, PartialEq, Eq, Debug)]
pub enum Pkg {
    Bare,
    OneFile,
    TwoFiles,
    NoConcat,
}

impl Pkg {
    pub fn as_str(&self) -> &'static str {
        match self {
            Pkg::Bare => "bare",
            Pkg::OneFile => "onefile",
            Pkg::TwoFiles => "twofiles",
            Pkg::NoConcat => "noconcat",
        }
    }
    pub fn parse(s: &str) -> Pkg {
        match s {
            "onefile" => Pkg::OneFile,
            "twofiles" => Pkg::TwoFiles,
            "noconcat" => Pkg::NoConcat,
            _ => Pkg::Bare,
        }
    }
    pub fn mode(&self) -> ConcatMode {
        match self {
            Pkg::TwoFiles => ConcatMode::TwoFiles,
            Pkg::NoConcat => ConcatMode::NoConcat,
            _ => ConcatMode::OneFile,
        }
    }
}

pub fn count(tier: Tier) -> u64 {
    tier.pick(160, 6000)
}

fn rand_src(rng: &mut Rng) -> Src {
    match rng.below(8) {
        0 | 1 | 2 | 3 => Src::Mem,
        4 => Src::File,
        5 | 6 => Src::Range {
            before: *rng.pick(&[1usize, 7, 512, 4096, 5000]),
            after: *rng.pick(&[0usize, 1, 9, 4096]),
        },
        _ => Src::RangeToEnd {
            before: *rng.pick(&[1usize, 13, 4096]),
        },
    }
}

fn rand_item(rng: &mut Rng, len: usize) -> Item {
    Item {
        len,
        ent: *rng.pick(&Ent::ALL),
        hint: *rng.pick(&Hint::ALL),
        src: rand_src(rng),
        dup_of: None,
        cat_of: None,
    }
}

/// Generate case `k`. The first shapes are fixed so that every boundary class is reached in every
/// run; later indices draw shapes at random.
pub fn gen(seed: u64, tier: Tier, k: u64) -> Value {
    let mut rng = Rng::keyed(seed, "C01", k);
    // cases 14..19 of every tier: the extreme levels of each codec (zstd 22/20/-22, lz4 15, lzma 9) on ordinary shapes
    let extreme = if (14..20).contains(&k) { Some([Comp::Zstd(22), Comp::Zstd(20), Comp::Zstd(-22), Comp::Lz4(15), Comp::Lzma(9), Comp::Zstd(21)][(k - 14) as usize]) } else { None };
    let shape = if k < 14 { k } else if extreme.is_some() { [8u64, 5, 8, 5, 8, 2][(k - 14) as usize] } else { rng.below(14) };
    let mut comp = Comp::pick(&mut rng, tier);
    if let Some(c) = extreme {
        comp = c;
    }
    let mut cached = rng.chance(1, 4);
    let mut items: Vec<Item> = vec![];
    let mut pkg = match rng.below(10) {
        0..=5 => Pkg::Bare,
        6 | 7 => Pkg::OneFile,
        8 => Pkg::TwoFiles,
        _ => Pkg::NoConcat,
    };
    let mb = 1024 * 1024;
    match shape {
        0 => {
            // empty pack
        }
        1 => {
            // many tiny items around the 4095-blobs-per-cluster split, one hint class
            let n = *rng.pick(&[4094usize, 4095, 4096, 4097]);
            let hint = *rng.pick(&Hint::ALL);
            let len = *rng.pick(&[0usize, 1, 3]);
            for _ in 0..n {
                items.push(Item { len, ent: Ent::Low4, hint, src: Src::Mem, dup_of: None, cat_of: None });
            }
            if len == 0 {
                // a non-empty item at the very end lands after the split
                items.push(Item { len: 5, ent: Ent::Low4, hint, src: Src::Mem, dup_of: None, cat_of: None });
            }
            // the first content of the SECOND cluster comes from a file (or a sub-range of one), the others from memory
            if items.len() > 4095 {
                items[4095].src = if rng.chance(1, 2) { Src::File } else { Src::Range { before: 7, after: 9 } };
                items[4095].len = items[4095].len.max(6);
            }
            cached = false;
        }
        2 => {
            // two full clusters and more (8190 / 8200 items), raw and compressed interleaved
            let n = *rng.pick(&[8190usize, 8200]);
            for i in 0..n {
                let hint = if i % 2 == 0 { Hint::Yes } else { Hint::No };
                items.push(Item { len: 1 + (i % 3), ent: Ent::Low4, hint, src: Src::Mem, dup_of: None, cat_of: None });
            }
            cached = false;
            if comp == Comp::None {
                comp = Comp::Zstd(1);
            }
        }
        3 => {
            // compressed clusters closing on size: contents of 1..2.5 MiB, low entropy
            if comp == Comp::None {
                comp = Comp::Zstd(1);
            }
            if let Comp::Lzma(_) = comp {
                comp = Comp::Lz4(1);
            }
            let n = rng.range(3, 7);
            for _ in 0..n {
                let len = rng.range((mb) as u64, (5 * mb / 2) as u64) as usize;
                items.push(Item { len, ent: Ent::Low4, hint: Hint::Yes, src: rand_src(&mut rng), dup_of: None, cat_of: None });
                if rng.chance(1, 2) {
                    let l = *rng.pick(&LEN_BOUNDARIES);
                    items.push(rand_item(&mut rng, l));
                }
            }
        }
        4 => {
            // content larger than a cluster
            if let Comp::Lzma(_) = comp {
                comp = Comp::Zstd(1);
            }
            items.push(rand_item(&mut rng, 10));
            let len = 4 * mb + *rng.pick(&[0usize, 1, 4096, 3 * mb]);
            items.push(Item { len, ent: Ent::Low4, hint: Hint::Yes, src: rand_src(&mut rng), dup_of: None, cat_of: None });
            items.push(Item { len: 4 * mb - 1, ent: Ent::Mid6, hint: Hint::Detect, src: Src::Mem, dup_of: None, cat_of: None });
            items.push(rand_item(&mut rng, 77));
        }
        5 => {
            // offset width boundaries of a raw cluster: total data size around 2^8, 2^16, (2^24 thorough)
            let target: usize = match (tier, rng.below(4)) {
                (Tier::Thorough, 3) => 1 << 24,
                (_, 0) => 1 << 8,
                _ => 1 << 16,
            };
            let delta = *rng.pick(&[-2i64, -1, 0, 1]);
            let total = (target as i64 + delta) as usize;
            let first = total / 3;
            for len in [first, total - first - 1, 1] {
                items.push(Item { len, ent: Ent::High, hint: Hint::No, src: Src::Mem, dup_of: None, cat_of: None });
            }
            // same for a compressed cluster (data size is the uncompressed size)
            if total <= (1 << 16) + 1 {
                for len in [first, total - first - 1, 1] {
                    items.push(Item { len, ent: Ent::Low4, hint: Hint::Yes, src: Src::Mem, dup_of: None, cat_of: None });
                }
            }
        }
        6 => {
            // empty contents: first, middle, several in a row, last; both cluster kinds
            let pattern = rng.below(4);
            let hints = [Hint::Yes, Hint::No, Hint::Detect];
            for h in hints {
                match pattern {
                    0 => {
                        items.push(Item { len: 0, ent: Ent::High, hint: h, src: Src::Mem, dup_of: None, cat_of: None });
                        items.push(Item { len: 9, ent: Ent::High, hint: h, src: Src::Mem, dup_of: None, cat_of: None });
                    }
                    1 => {
                        items.push(Item { len: 9, ent: Ent::Low4, hint: h, src: Src::File, dup_of: None, cat_of: None });
                        for _ in 0..3 {
                            items.push(Item { len: 0, ent: Ent::Low4, hint: h, src: rand_src(&mut rng), dup_of: None, cat_of: None });
                        }
                        items.push(Item { len: 300, ent: Ent::Low4, hint: h, src: Src::Mem, dup_of: None, cat_of: None });
                    }
                    2 => {
                        items.push(Item { len: 70000, ent: Ent::Low4, hint: h, src: Src::Mem, dup_of: None, cat_of: None });
                        items.push(Item { len: 0, ent: Ent::Low4, hint: h, src: Src::Mem, dup_of: None, cat_of: None });
                    }
                    _ => {
                        for _ in 0..4 {
                            items.push(Item { len: 0, ent: Ent::Zero, hint: h, src: Src::Mem, dup_of: None, cat_of: None });
                        }
                    }
                }
            }
        }
        7 => {
            // deduplicating adder: duplicates at distance, both sides of its 4 MiB switch
            cached = true;
            if let Comp::Lzma(_) = comp {
                comp = Comp::Zstd(1);
            }
            let big = *rng.pick(&[4 * mb - 1, 4 * mb, 4 * mb + 1]);
            let lens = [5usize, 0, 4096, big, 70000];
            for &l in &lens {
                let mut it = rand_item(&mut rng, l);
                if l >= mb {
                    it.ent = Ent::Low4;
                }
                items.push(it);
            }
            for j in 0..lens.len() {
                let mut it = items[j].clone();
                it.dup_of = Some(j);
                it.hint = *rng.pick(&Hint::ALL);
                it.src = rand_src(&mut rng);
                items.push(it);
            }
            let mut extra = rand_item(&mut rng, 33);
            extra.dup_of = None;
            items.push(extra);
            // contents whose bytes are the concatenation of two contents inserted one after the other: (big, next) and
            // (small, next). The key of a content must depend on its own bytes only, not on what was inserted before it.
            for (a, b) in [(3usize, 4usize), (0, 2)] {
                let mut it = rand_item(&mut rng, items[a].len + items[b].len);
                it.cat_of = Some((a, b));
                items.push(it);
            }
        }
        8 => {
            // `Detect` on both sides of the 6.0 bit threshold, from every source kind (rewind after sniffing)
            if comp == Comp::None {
                comp = Comp::Zstd(1);
            }
            for ent in [Ent::Zero, Ent::Low4, Ent::Mid6, Ent::Mid7, Ent::High] {
                for len in [100usize, 4096, 4097, 10_000] {
                    items.push(Item { len, ent, hint: Hint::Detect, src: rand_src(&mut rng), dup_of: None, cat_of: None });
                }
            }
        }
        9 => {
            // file sub-range sources with origin != 0 and data after the range
            for _ in 0..rng.range(4, 12) {
                let len = *rng.pick(&[0usize, 1, 100, 4096, 8192, 70_000, 300_000]);
                let src = if rng.chance(1, 3) {
                    Src::RangeToEnd { before: rng.range(1, 9000) as usize }
                } else {
                    Src::Range { before: rng.range(1, 9000) as usize, after: rng.range(0, 9000) as usize }
                };
                items.push(Item { len, ent: *rng.pick(&Ent::ALL), hint: *rng.pick(&Hint::ALL), src, dup_of: None, cat_of: None });
            }
        }
        10 => {
            // one single content, any size class
            let len = *rng.pick(&LEN_BOUNDARIES);
            items.push(rand_item(&mut rng, len));
        }
        11 => {
            // through the packagings of the high-level creator
            pkg = *rng.pick(&[Pkg::OneFile, Pkg::TwoFiles, Pkg::NoConcat]);
            for _ in 0..rng.range(1, 12) {
                let len = *rng.pick(&LEN_BOUNDARIES);
                items.push(rand_item(&mut rng, len));
            }
        }
        _ => {
            // small mixed sequence over the boundary lengths
            for _ in 0..rng.range(2, 40) {
                let len = if rng.chance(1, 5) {
                    rng.range(0, 200_000) as usize
                } else {
                    *rng.pick(&LEN_BOUNDARIES)
                };
                let mut it = rand_item(&mut rng, len);
                if !items.is_empty() && rng.chance(1, 8) {
                    let j = rng.usize_below(items.len());
                    if items[j].dup_of.is_none() {
                        it.len = items[j].len;
                        it.ent = items[j].ent;
                        it.dup_of = Some(j);
                    }
                }
                items.push(it);
            }
        }
    }
    if tier == Tier::Thorough && shape == 13 && rng.chance(1, 40) {
        // > 16 MiB single compressed content: 4-byte offsets in a compressed cluster
        items.push(Item { len: (1 << 24) + 5, ent: Ent::Low4, hint: Hint::Yes, src: Src::Mem, dup_of: None, cat_of: None });
        if let Comp::Lzma(_) = comp {
            comp = Comp::Zstd(1);
        }
        if comp == Comp::None {
            comp = Comp::Lz4(0);
        }
    }
    let case = ContentCase { seed: rng.next(), comp, cached, items };
    let mut v = case.to_json();
    v["pkg"] = json!(pkg.as_str());
    v["shape"] = json!(shape);
    v
}

pub struct Created {
    pub addrs: Vec<jbk::ContentAddress>,
    /// path of the file to open (bare pack or entry point of the container)
    pub path: PathBuf,
}

struct NullStore;
impl jbk::creator::EntryStoreTrait for NullStore {
    fn finalize(self: Box<Self>, directory_pack: &mut jbk::creator::DirectoryPackCreator) {
        // smallest possible directory: one store with one constant entry, one index
        use jbk::creator::schema;
        let schema = schema::Schema::<&'static str, &'static str>::new(
            schema::CommonProperties::new(vec![schema::Property::new_uint("id")]),
            vec![],
            None,
        );
        let mut store = Box::new(jbk::creator::EntryStore::new(schema, None));
        store.add_entry(jbk::creator::BasicEntry::new_from_schema(
            &store.schema,
            None,
            std::collections::HashMap::from([("id", jbk::Value::Unsigned(7))]),
        ));
        let id = directory_pack.add_entry_store(store);
        directory_pack.create_index("main", Default::default(), 0.into(), id, 1.into(), jbk::EntryIdx::from(0).into());
    }
}

/// Create the pack described by `case` with packaging `pkg` inside `dir`.
pub fn create(case: &ContentCase, pkg: Pkg, dir: &Path, progress: Arc<dyn jbk::creator::Progress>) -> Result<Created, String> {
    let inputs = dir.join("inputs");
    std::fs::create_dir_all(&inputs).map_err(|e| e.to_string())?;
    match pkg {
        Pkg::Bare => {
            let path = dir.join("pack.jbkc");
            let upath = camino::Utf8PathBuf::from_path_buf(path.clone()).map_err(|_| "utf8")?;
            let creator = ContentPackCreator::new_with_progress(
                &upath,
                jbk::PackId::from(1),
                vendor(),
                Default::default(),
                case.comp.to_jbk(),
                progress,
            )
            .map_err(|e| format!("new: {e}"))?;
            let (addrs, creator) = if case.cached {
                let mut adder = CachedContentAdder::new(creator, Rc::new(()));
                let a = add_all(&mut adder, case, &inputs).map_err(|e| format!("add_content: {e}"))?;
                (a, adder.into_inner())
            } else {
                let mut creator = creator;
                let a = add_all(&mut creator, case, &inputs).map_err(|e| format!("add_content: {e}"))?;
                (a, creator)
            };
            let (_file, _data) = creator.finalize().map_err(|e| format!("finalize: {e}"))?;
            Ok(Created { addrs, path })
        }
        _ => {
            let path = dir.join("c.jbk");
            let upath = camino::Utf8PathBuf::from_path_buf(path.clone()).map_err(|_| "utf8")?;
            let creator = BasicCreator::new(&upath, pkg.mode(), vendor(), case.comp.to_jbk(), progress)
                .map_err(|e| format!("new: {e}"))?;
            let (addrs, creator) = if case.cached {
                let mut adder = CachedContentAdder::new(creator, Rc::new(()));
                let a = add_all(&mut adder, case, &inputs).map_err(|e| format!("add_content: {e}"))?;
                (a, adder.into_inner())
            } else {
                let mut creator = creator;
                let a = add_all(&mut creator, case, &inputs).map_err(|e| format!("add_content: {e}"))?;
                (a, creator)
            };
            creator.finalize(Box::new(NullStore), vec![]).map_err(|e| format!("finalize: {e}"))?;
            Ok(Created { addrs, path })
        }
    }
}

pub enum Opened {
    Bare(ContentPack),
    Cont(Container),
}

impl Opened {
    pub fn open(pkg: Pkg, path: &Path) -> Result<Opened, String> {
        match pkg {
            Pkg::Bare => {
                let reader: jbk::Reader = jbk::FileSource::open(path).map_err(|e| format!("open: {e}"))?.into();
                Ok(Opened::Bare(ContentPack::new(reader).map_err(|e| format!("ContentPack::new: {e}"))?))
            }
            _ => Ok(Opened::Cont(Container::new(path).map_err(|e| format!("Container::new: {e}"))?)),
        }
    }
    /// Ok(None) = "no such content"
    pub fn get(&self, addr: jbk::ContentAddress) -> Result<Option<jbk::reader::ByteRegion>, String> {
        match self {
            Opened::Bare(p) => p.get_content(addr.content_id).map_err(|e| format!("get_content: {e}")),
            Opened::Cont(c) => match c.get_bytes(addr).map_err(|e| format!("get_bytes: {e}"))? {
                None => Err("get_bytes: pack id unknown".into()),
                Some(MayMissPack::MISSING(info)) => Err(format!("get_bytes: pack reported missing ({})", info.pack_location)),
                Some(MayMissPack::FOUND(r)) => Ok(r),
            },
        }
    }
    pub fn content_count(&self) -> Result<u32, String> {
        match self {
            Opened::Bare(p) => Ok(p.get_content_count().into_u32()),
            Opened::Cont(c) => match c.get_pack(jbk::PackId::from(1)).map_err(|e| format!("get_pack: {e}"))? {
                Some(MayMissPack::FOUND(p)) => Ok(p.get_content_count().into_u32()),
                Some(MayMissPack::MISSING(_)) => Err("get_pack: pack reported missing".into()),
                None => Err("get_pack: unknown".into()),
            },
        }
    }
}

pub fn read_all(region: &jbk::reader::ByteRegion) -> Result<Vec<u8>, String> {
    let mut v = Vec::with_capacity(region.size().into_u64() as usize);
    region.stream().read_to_end(&mut v).map_err(|e| format!("stream read: {e}"))?;
    Ok(v)
}

pub fn fingerprint(case: &ContentCase, pkg: Pkg, out: &mut CaseOut) {
    let mut fp = Fp::new();
    fp.s(case.comp.name()).s(pkg.as_str()).u(case.cached as u64);
    if let Comp::Lz4(l) | Comp::Lzma(l) = case.comp {
        fp.u(l as u64);
    }
    if let Comp::Zstd(l) = case.comp {
        fp.u(l as u64 as u32 as u64);
    }
    let mut nonempty = false;
    let mut nondefault = false;
    // classes in order, run-length compressed so that 4096 identical items do not dominate
    let mut last = String::new();
    let mut runs = 0u64;
    for it in &case.items {
        let cls = format!("{}{}{}{}", len_class(it.len), it.hint.as_str(), it.src.class(), if it.cat_of.is_some() { "cat".to_string() } else { it.dup_of.is_some().to_string() });
        if cls != last {
            fp.s(&cls);
            last = cls;
            runs += 1;
        }
        nonempty |= it.len > 0;
        nondefault |= it.hint != Hint::Detect || it.src != Src::Mem;
        out.obs.inc(&format!("items.hint.{}", it.hint.as_str()));
        out.obs.inc(&format!("items.src.{}", it.src.class()));
        out.obs.inc(&format!("items.len.{}", len_class(it.len)));
    }
    fp.u(runs).u(case.items.len() as u64);
    out.fp = fp.hex();
    out.nontrivial = nonempty && (case.items.len() >= 2 || nondefault);
    out.obs.inc(&format!("cases.comp.{}", case.comp.name()));
    out.obs.inc(&format!("cases.pkg.{}", pkg.as_str()));
    if case.cached {
        out.obs.inc("cases.cached_adder");
    }
    out.obs.add("items", case.items.len() as u64);
    out.obs.add("bytes", case.total_bytes());
    out.obs.max("items_in_one_pack", case.items.len() as u64);
}

pub fn run(desc: &Value, ctx: &Ctx) -> CaseOut {
    let mut out = CaseOut::new();
    let case = ContentCase::from_json(desc);
    let pkg = Pkg::parse(jstr(desc, "pkg"));
    fingerprint(&case, pkg, &mut out);
    let scratch = Scratch::new(&ctx.work, "c01");
    let class = format!("{}/{}", case.comp.name(), pkg.as_str());

    // ---- create (client boundary: addresses logged per call)
    let created = match util::catch(|| create(&case, pkg, &scratch.dir, Arc::new(()))) {
        Err(p) => {
            out.violate_panic("C01", "create", &class, &p);
            return out;
        }
        Ok(Err(e)) => {
            out.violate(
                json!({"kind": "create-error", "message": util::normalize_msg(&e), "class": class}),
                format!("C01: creation of a valid insertion sequence failed: {e}"),
                json!({}),
            );
            return out;
        }
        Ok(Ok(c)) => c,
    };

    // ---- read back
    let r = util::catch(|| read_back(&case, pkg, &created, &mut out));
    if let Err(p) = r {
        out.violate_panic("C01", "read", &class, &p);
    }
    out
}

fn read_back(case: &ContentCase, pkg: Pkg, created: &Created, out: &mut CaseOut) {
    let class = format!("{}/{}", case.comp.name(), pkg.as_str());
    let opened = match Opened::open(pkg, &created.path) {
        Ok(o) => o,
        Err(e) => {
            out.violate(
                json!({"kind": "open-error", "message": util::normalize_msg(&e), "class": class}),
                format!("C01: a freshly created pack does not open: {e}"),
                json!({}),
            );
            return;
        }
    };
    // count
    let expected = case.expected_count() as u32;
    match opened.content_count() {
        Ok(n) if n == expected => out.obs.inc("count_checks"),
        Ok(n) => out.violate(
            json!({"kind": "count", "class": class}),
            format!("C01: pack reports {n} contents, {expected} were accepted"),
            json!({"got": n, "expected": expected}),
        ),
        Err(e) => out.violate(
            json!({"kind": "read-error", "api": "count", "message": util::normalize_msg(&e), "class": class}),
            format!("C01: {e}"),
            json!({}),
        ),
    }
    // every logged address
    for (i, addr) in created.addrs.iter().enumerate() {
        match opened.get(*addr) {
            Ok(Some(region)) => {
                let exp_len = case.items[i].len as u64;
                if region.size().into_u64() != exp_len {
                    out.violate(
                        json!({"kind": "size", "class": class}),
                        format!("C01: item {i}: region size {} != {exp_len}", region.size().into_u64()),
                        json!({"item": i}),
                    );
                    continue;
                }
                // every third address is read through the owning conversion `ByteStream::from(region)`, the others through
                // `region.stream()`; small contents also through get_slice
                let by_conversion = i % 3 == 2;
                let read = if by_conversion {
                    let mut v = Vec::with_capacity(exp_len as usize);
                    let mut st = jbk::reader::ByteStream::from(region.clone());
                    st.read_to_end(&mut v).map(|_| v).map_err(|e| format!("stream (from region) read: {e}"))
                } else {
                    read_all(&region)
                };
                if exp_len > 0 && exp_len <= 100_000 {
                    match region.get_slice(jbk::Offset::from(0u64), exp_len as usize) {
                        Ok(sl) => {
                            out.obs.inc("reads_by_get_slice");
                            if sl.as_ref() != &case.bytes_of(i)[..] {
                                out.violate(json!({"kind": "bytes", "class": class, "view": "get_slice"}), format!("C01: item {i}: get_slice(0, {exp_len}) returns other bytes than were stored"), json!({"item": i}));
                            }
                        }
                        Err(e) => out.violate(json!({"kind": "read-error", "api": "get_slice", "message": util::normalize_msg(&e.to_string()), "class": class}), format!("C01: item {i}: get_slice: {e}"), json!({"item": i})),
                    }
                }
                match read {
                    Ok(got) => {
                        out.obs.inc(if by_conversion { "reads_by_stream_conversion" } else { "reads" });
                        out.obs.add("bytes_compared", got.len() as u64);
                        if got != case.bytes_of(i) {
                            out.violate(
                                json!({"kind": "bytes", "class": class}),
                                format!("C01: item {i} (addr {}:{}) reads back different bytes: {}", addr.pack_id.into_u16(), addr.content_id.into_u32(), explain_mismatch(case, i, &got)),
                                json!({"item": i, "len": case.items[i].len, "hint": case.items[i].hint.as_str()}),
                            );
                        }
                    }
                    Err(e) => out.violate(
                        json!({"kind": "read-error", "api": "stream", "message": util::normalize_msg(&e), "class": class}),
                        format!("C01: item {i}: {e}"),
                        json!({"item": i}),
                    ),
                }
            }
            Ok(None) => out.violate(
                json!({"kind": "absent", "class": class}),
                format!("C01: item {i}: address returned by add_content answers 'no such content'"),
                json!({"item": i}),
            ),
            Err(e) => out.violate(
                json!({"kind": "read-error", "api": "get", "message": util::normalize_msg(&e), "class": class}),
                format!("C01: item {i}: {e}"),
                json!({"item": i}),
            ),
        }
        if out.viols.len() >= 4 {
            break;
        }
    }
    // addresses past the count
    for probe in [expected, expected.saturating_add(1), u32::MAX - 1] {
        if probe < expected {
            continue;
        }
        let addr = jbk::ContentAddress::new(jbk::PackId::from(1), jbk::ContentIdx::from(probe));
        match opened.get(addr) {
            Ok(None) => out.obs.inc("past_count_probes"),
            Ok(Some(r)) => out.violate(
                json!({"kind": "past-count-found", "class": class}),
                format!("C01: address {probe} >= count {expected} returns a region of {} bytes", r.size().into_u64()),
                json!({"probe": probe}),
            ),
            Err(e) => out.violate(
                json!({"kind": "past-count-error", "message": util::normalize_msg(&e), "class": class}),
                format!("C01: address {probe} >= count {expected} answers an error instead of 'no such content': {e}"),
                json!({"probe": probe}),
            ),
        }
    }
}
