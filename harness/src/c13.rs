//! C13 — all views of a stored content (stream, slice, sub-cut, conversions) agree.

use crate::c01::{self, Pkg};
use crate::content::*;
use crate::dirs::*;
use crate::indep;
use crate::proto::*;
use crate::rng::{Fp, Rng};
use crate::util::{self, Scratch};
use jubako as jbk;
use jubako::reader::{ByteRegion, ByteSlice, ByteStream, Range as _};
use serde_json::{json, Value};
use std::io::Read;
use std::sync::Arc;

pub fn count(tier: Tier) -> u64 {
    tier.pick(400, 10000)
}

pub fn gen(seed: u64, tier: Tier, k: u64) -> Value {
    let mut rng = Rng::keyed(seed, "C13", k);
    let source = ["memory", "file", "mmap", "decoded"][(k % 4) as usize];
    if source == "mmap" {
        // a directory pack larger than 4 KiB read from a file: entry-store slices live on an mmap
        let n = rng.range(300, 1500) as usize;
        let st = StoreDef {
            n,
            common: vec![
                PDef { name: "a".into(), kind: PKind::UInt, col: Col::Full },
                PDef { name: "b".into(), kind: PKind::SInt, col: Col::Full },
                PDef { name: "c".into(), kind: PKind::Array { prefix: *rng.pick(&[4u8, 16, 31]), store: 0 }, col: Col::Arr { max: 40, alpha: 0 } },
            ],
            variants: vec![],
            sort: None,
            unique_keys: false,
        };
        let dir = DirCase { seed: rng.next(), vstores: vec![rng.chance(1, 2)], stores: vec![st], indexes: vec![IndexDef { name: "i".into(), store: 0, offset: 0, count: n as u32 }], defer: 0, free: 0 };
        return json!({"source": source, "dir": dir.to_json(), "ops_seed": rng.next()});
    }
    let comp = match source {
        "decoded" => match rng.below(4) {
            0 => Comp::Lz4(1),
            1 => Comp::Lzma(0),
            _ => Comp::Zstd(1),
        },
        _ => Comp::None,
    };
    let mut items = vec![];
    for _ in 0..rng.range(3, 9) {
        let len = match rng.below(6) {
            0 => 0,
            1 => rng.range(1, 40) as usize,
            2 => *rng.pick(&[4095usize, 4096, 4097, 8192]),
            3 => rng.range(50_000, tier.pick(300_000, 1_500_000)) as usize,
            _ => rng.range(40, 20_000) as usize,
        };
        let hint = if source == "decoded" { Hint::Yes } else { Hint::No };
        items.push(Item { len, ent: *rng.pick(&[Ent::Low4, Ent::Mid6, Ent::High]), hint, src: Src::Mem, dup_of: None, cat_of: None });
    }
    if k % 8 >= 4 {
        // one content well beyond 1 MiB (read in one call by some of the streams below)
        let at = rng.usize_below(items.len() + 1);
        let hint = if source == "decoded" { Hint::Yes } else { Hint::No };
        items.insert(at, Item { len: rng.range(1_100_000, 2_600_000) as usize, ent: *rng.pick(&[Ent::Low4, Ent::High]), hint, src: Src::Mem, dup_of: None, cat_of: None });
    }
    let case = ContentCase { seed: rng.next(), comp, cached: false, items };
    json!({"source": source, "content": case.to_json(), "ops_seed": rng.next()})
}

struct Mon<'a> {
    out: &'a mut CaseOut,
    source: &'a str,
    rng: Rng,
    budget: u32,
}

impl Mon<'_> {
    fn bad(&mut self, view: &str, what: String) {
        self.out.violate(json!({"kind": "view", "view": view, "source": self.source, "profile": profile()}), format!("C13 [{}]: {what}", self.source), json!({}));
    }

    fn check_stream(&mut self, mut s: ByteStream, exp: &[u8], label: &str) {
        self.out.obs.inc("views.stream");
        if s.size() != exp.len() as u64 {
            self.bad(label, format!("{label}: size() {} != {}", s.size(), exp.len()));
            return;
        }
        let mut got: Vec<u8> = Vec::with_capacity(exp.len());
        let mut guard = 0;
        loop {
            guard += 1;
            if guard > 100_000 {
                self.bad(label, format!("{label}: stream never ends"));
                return;
            }
            let consumed = got.len() as u64;
            // bookkeeping must be consistent with the bytes consumed so far
            // (a cursor created with a wrong origin underflows here: caught as a panic by the caller)
            let (off, left) = (s.offset(), s.size_left());
            if off != consumed || left != exp.len() as u64 - consumed {
                self.bad(label, format!("{label}: after {consumed} bytes offset()={off} size_left()={left} (size {})", exp.len()));
                return;
            }
            let want = match self.rng.below(8) {
                // (a content beyond 1 MiB is asked for in a single call half of the time)
                _ if got.is_empty() && exp.len() > 1_000_000 && self.rng.chance(1, 2) => exp.len() + 10,
                0 => 0,
                1 => 1,
                2 => exp.len() + 10,
                3 => 4096,
                _ => self.rng.range(1, 70_000) as usize,
            };
            if !got.is_empty() && self.rng.chance(1, 6) {
                // finish with read_to_end after partial reads (a stream may specialise it)
                let mut rest = vec![];
                match s.read_to_end(&mut rest) {
                    Ok(n) => {
                        if n != rest.len() {
                            self.bad(label, format!("{label}: read_to_end returned {n} but appended {} bytes", rest.len()));
                            return;
                        }
                        got.extend_from_slice(&rest);
                        self.out.obs.inc("views.read_to_end_after_partial");
                        if s.size_left() != 0 || s.offset() != exp.len() as u64 {
                            self.bad(label, format!("{label}: after read_to_end offset()={} size_left()={}", s.offset(), s.size_left()));
                            return;
                        }
                        break;
                    }
                    Err(e) => {
                        self.bad(label, format!("{label}: read_to_end error after {} bytes: {e}", got.len()));
                        return;
                    }
                }
            }
            if self.rng.chance(1, 7) {
                // read_exact: within what is left it delivers exactly those bytes; asked for more than is left it must fail,
                // never succeed with bytes that lie beyond the view
                let left = exp.len() - got.len();
                let over = self.rng.chance(1, 2);
                let k = if over { left + 1 + self.rng.usize_below(16) } else { self.rng.usize_below(left + 1) };
                let mut buf = vec![0u8; k];
                match s.read_exact(&mut buf) {
                    Ok(()) if over => {
                        self.bad(label, format!("{label}: read_exact of {k} bytes succeeded on a stream with {left} bytes left"));
                        return;
                    }
                    Ok(()) => {
                        got.extend_from_slice(&buf);
                        self.out.obs.inc("views.read_exact");
                        continue;
                    }
                    Err(_) if over => {
                        self.out.obs.inc("views.read_exact_past_end_refused");
                        if got[..] != exp[..got.len()] {
                            self.bad(label, format!("{label}: bytes streamed before a refused read_exact differ from the content"));
                        }
                        return;
                    }
                    Err(e) => {
                        self.bad(label, format!("{label}: read_exact of {k} bytes with {left} left fails: {e}"));
                        return;
                    }
                }
            }
            let mut buf = vec![0u8; want];
            match s.read(&mut buf) {
                Ok(0) => {
                    if want == 0 && (got.len() < exp.len()) {
                        continue;
                    }
                    break;
                }
                Ok(n) => {
                    if n > want {
                        self.bad(label, format!("{label}: read returned {n} > buffer {want}"));
                        return;
                    }
                    got.extend_from_slice(&buf[..n]);
                    if got.len() > exp.len() {
                        break;
                    }
                }
                Err(e) => {
                    self.bad(label, format!("{label}: read error after {} bytes: {e}", got.len()));
                    return;
                }
            }
        }
        self.out.obs.add("bytes_compared", got.len() as u64);
        if got != exp {
            let pos = got.iter().zip(exp.iter()).position(|(a, b)| a != b).unwrap_or(got.len().min(exp.len()));
            self.bad(label, format!("{label}: streamed {} bytes, expected {}; first difference at {pos}", got.len(), exp.len()));
        }
    }

    fn sub(&mut self, len: usize) -> (usize, usize) {
        let o = match self.rng.below(4) {
            0 => 0,
            1 => len,
            _ => self.rng.usize_below(len + 1),
        };
        let n = match self.rng.below(4) {
            0 => 0,
            1 => len - o,
            _ => self.rng.usize_below(len - o + 1),
        };
        (o, n)
    }

    fn check_region(&mut self, r: &ByteRegion, exp: &[u8], depth: u32) {
        if self.budget == 0 {
            return;
        }
        self.budget -= 1;
        self.out.obs.inc("views.region");
        self.out.obs.max("depth", depth as u64);
        if r.size().into_u64() != exp.len() as u64 {
            self.bad("region.size", format!("region size {} != {}", r.size().into_u64(), exp.len()));
            return;
        }
        // half of the time the slices are taken BEFORE anything streamed the content, i.e. while a background
        // decoder may still be far from the end of this content
        let slices_first = self.rng.chance(1, 2);
        if !slices_first {
            self.check_stream(r.stream(), exp, "region.stream()");
            self.check_stream(ByteStream::from(r.clone()), exp, "ByteStream::from(region)");
        }
        for _ in 0..3 {
            let (o, n) = self.sub(exp.len());
            match r.get_slice(jbk::Offset::from(o as u64), n) {
                Ok(s) => {
                    self.out.obs.inc("views.get_slice");
                    if s.as_ref() != &exp[o..o + n] {
                        self.bad("region.get_slice", format!("region.get_slice({o},{n}) differs from the expected sub-range"));
                    }
                }
                Err(e) => self.bad("region.get_slice", format!("region.get_slice({o},{n}) on a {}-byte region: {e}", exp.len())),
            }
        }
        if exp.len() >= 3 {
            // adjacent slices [a,b) then [b,c) with another access to the same source in between
            let a = self.rng.usize_below(exp.len() - 2);
            let b = a + 1 + self.rng.usize_below(exp.len() - a - 2);
            let c = b + 1 + self.rng.usize_below(exp.len() - b - 1).min(5000);
            let b_end = b;
            let first = r.get_slice(jbk::Offset::from(a as u64), b_end - a).map(|x| x.to_vec());
            let mut head = vec![0u8; exp.len().min(10)];
            let _ = r.stream().read(&mut head);
            let second = r.get_slice(jbk::Offset::from(b as u64), c - b).map(|x| x.to_vec());
            self.out.obs.inc("views.adjacent_slices");
            match (first, second) {
                (Ok(f), Ok(g)) => {
                    if f != exp[a..b] || g != exp[b..c] {
                        self.bad("region.get_slice", format!("adjacent slices [{a},{b}) and [{b},{c}) with a stream read in between: {} differs", if f != exp[a..b] { "the first" } else { "the second" }));
                    }
                }
                (Err(e), _) | (_, Err(e)) => self.bad("region.get_slice", format!("adjacent slices: {e}")),
            }
        }
        if slices_first {
            self.out.obs.inc("regions_sliced_before_streamed");
            self.check_stream(r.stream(), exp, "region.stream()");
            self.check_stream(ByteStream::from(r.clone()), exp, "ByteStream::from(region)");
        }
        self.check_slice(&r.as_slice(), exp, depth);
        if depth < 3 {
            let (o, n) = self.sub(exp.len());
            let cut = r.cut(jbk::Offset::from(o as u64), jbk::Size::from(n as u64));
            self.check_slice(&cut, &exp[o..o + n], depth + 1);
        }
    }

    fn check_slice(&mut self, s: &ByteSlice, exp: &[u8], depth: u32) {
        if self.budget == 0 {
            return;
        }
        self.budget -= 1;
        self.out.obs.inc("views.slice");
        self.out.obs.max("depth", depth as u64);
        if s.size().into_u64() != exp.len() as u64 {
            self.bad("slice.size", format!("slice size {} != {}", s.size().into_u64(), exp.len()));
            return;
        }
        self.check_stream(s.stream(), exp, "slice.stream()");
        let (o, n) = self.sub(exp.len());
        match s.get_slice(jbk::Offset::from(o as u64), n) {
            Ok(g) => {
                self.out.obs.inc("views.get_slice");
                if g.as_ref() != &exp[o..o + n] {
                    self.bad("slice.get_slice", format!("slice.get_slice({o},{n}) differs from the expected sub-range"));
                }
            }
            Err(e) => self.bad("slice.get_slice", format!("slice.get_slice({o},{n}): {e}")),
        }
        if depth < 3 {
            let (o, n) = self.sub(exp.len());
            let cut = s.cut(jbk::Offset::from(o as u64), jbk::Size::from(n as u64));
            self.check_slice(&cut, &exp[o..o + n], depth + 1);
            // conversion back to an owning region
            let back: ByteRegion = s.clone().into();
            self.check_region(&back, exp, depth + 1);
        }
    }
}

pub fn run(desc: &Value, ctx: &Ctx) -> CaseOut {
    let mut out = CaseOut::new();
    let source = jstr(desc, "source").to_string();
    let scratch = Scratch::new(&ctx.work, "c13");
    out.obs.inc(&format!("sources.{source}"));
    let ops_seed = ju64(desc, "ops_seed");
    let r = util::catch(|| {
        let mut nonfirst = 0u64;
        if source == "mmap" {
            let dc = DirCase::from_json(desc.get("dir").unwrap());
            let path = scratch.path("d.jbkd");
            if let Err(e) = create_bare(&dc, &path) {
                out.inconclusive(format!("creation failed (C02's concern): {e}"));
                return;
            }
            let bytes = std::fs::read(&path).unwrap();
            let view = indep::decode_file(&bytes);
            let span = view.spans.iter().find(|s| s.name == "entry store data").cloned();
            let (start, esize) = match (span, view.directory_pack()) {
                (Some(s), Some(p)) => match &p.body {
                    indep::PackBody::Directory { stores, .. } => (s.start as usize, stores[0].entry_size as usize),
                    _ => return out.inconclusive("decoder: no directory body"),
                },
                _ => return out.inconclusive("decoder: entry store data not located"),
            };
            if bytes.len() < 4096 {
                return out.inconclusive("directory pack smaller than 4 KiB: no mmap");
            }
            let pack = match crate::c02::open_dir_file(&path) {
                Ok(p) => p,
                Err(e) => return out.inconclusive(format!("open failed (C02's concern): {e}")),
            };
            let storage = pack.create_entry_storage();
            let index = pack.get_index_from_name("i").unwrap().unwrap();
            let store = index.get_store(&storage).unwrap();
            let mut mon = Mon { out: &mut out, source: &source, rng: Rng::new(ops_seed), budget: 4000 };
            let mut rsel = Rng::new(ops_seed ^ 1);
            for _ in 0..40 {
                let i = 1 + rsel.usize_below(dc.stores[0].n - 1);
                let slice = store.get_entry_reader(jbk::EntryIdx::from(i as u32)).expect("entry in store");
                let exp = &bytes[start + i * esize..start + (i + 1) * esize];
                nonfirst += 1;
                mon.check_slice(&slice, exp, 0);
            }
            let _ = index.count();
        } else {
            let cc = ContentCase::from_json(desc.get("content").unwrap());
            let created = match c01::create(&cc, Pkg::Bare, &scratch.dir, Arc::new(())) {
                Ok(c) => c,
                Err(e) => return out.inconclusive(format!("creation failed (C01's concern): {e}")),
            };
            let pack = if source == "memory" {
                let bytes = std::fs::read(&created.path).unwrap();
                let reader: jbk::Reader = bytes.into();
                jbk::reader::ContentPack::new(reader)
            } else {
                let reader: jbk::Reader = jbk::FileSource::open(&created.path).unwrap().into();
                jbk::reader::ContentPack::new(reader)
            };
            let pack = match pack {
                Ok(p) => p,
                Err(e) => return out.inconclusive(format!("open failed (C01's concern): {e}")),
            };
            let mut mon = Mon { out: &mut out, source: &source, rng: Rng::new(ops_seed), budget: 1500 };
            let mut order: Vec<usize> = (0..created.addrs.len()).collect();
            if ops_seed % 2 == 0 {
                order.reverse();
            }
            for i in order {
                let addr = &created.addrs[i];
                let region = match pack.get_content(addr.content_id) {
                    Ok(Some(r)) => r,
                    other => {
                        mon.out.inconclusive(format!("get_content({i}) = {:?} (C01's concern)", other.map(|o| o.is_some()).map_err(|e| e.to_string())));
                        continue;
                    }
                };
                let exp = cc.bytes_of(i);
                if i > 0 {
                    nonfirst += 1;
                }
                mon.check_region(&region, &exp, 0);
            }
            // file-backed source whose file is cut short AFTER the pack was opened: the slice view and the stream view of a
            // content that now ends beyond the end of the file either fail, or give bytes that ARE the content's (a stream may
            // stop early); neither may hand out bytes that were never stored (small tables are held in memory, no mapping)
            if source == "file" && ops_seed % 3 == 0 {
                let bytes = std::fs::read(&created.path).unwrap_or_default();
                let view = indep::decode_file(&bytes);
                let raw: Vec<(usize, u64)> = match view.content_pack().map(|p| &p.body) {
                    Some(indep::PackBody::Content { contents, .. }) => created
                        .addrs
                        .iter()
                        .enumerate()
                        .filter_map(|(i, a)| contents.get(a.content_id.into_u32() as usize).and_then(|r| r.raw_offset).map(|o| (i, o)))
                        .filter(|(i, _)| cc.items[*i].len >= 16)
                        .collect(),
                    _ => vec![],
                };
                if let Some((i, off)) = raw.iter().max_by_key(|(_, o)| *o).cloned() {
                    let exp = cc.bytes_of(i);
                    let cut = off + exp.len() as u64 / 2;
                    if let Ok(Some(region)) = pack.get_content(created.addrs[i].content_id) {
                        if std::fs::OpenOptions::new().write(true).open(&created.path).and_then(|f| f.set_len(cut)).is_ok() {
                            out.obs.inc("views_after_the_file_was_cut_short");
                            match region.get_slice(jbk::Offset::from(0u64), exp.len()) {
                                Ok(sl) if sl.as_ref() != &exp[..] => out.violate(
                                    json!({"kind": "view", "view": "get_slice-after-truncation", "source": source, "profile": profile()}),
                                    format!("C13 [file]: the file was cut short inside content {i}: get_slice still answers Ok, with bytes that are not the content's"),
                                    json!({}),
                                ),
                                _ => {}
                            }
                            let mut got = vec![];
                            let res = region.stream().read_to_end(&mut got);
                            if res.is_ok() && (got.len() > exp.len() || got[..] != exp[..got.len()]) {
                                out.violate(
                                    json!({"kind": "view", "view": "stream-after-truncation", "source": source, "profile": profile()}),
                                    format!("C13 [file]: the file was cut short inside content {i}: the stream answers Ok with {} bytes that are not a prefix of the content", got.len()),
                                    json!({}),
                                );
                            }
                        }
                    }
                }
            }
        }
        out.obs.add("contents_not_first_in_source", nonfirst);
        out.nontrivial = nonfirst > 0;
    });
    if let Err(p) = r {
        out.violate_panic("C13", "view", &source, &p);
    }
    let mut fp = Fp::new();
    fp.s(&source).u(ops_seed);
    out.fp = fp.hex();
    out
}

/// Run the view-operation tree on one region (used by the Miri round-trip driver).
pub fn check_views(region: &ByteRegion, exp: &[u8], seed: u64, budget: u32, out: &mut CaseOut) {
    let mut mon = Mon { out, source: "memory", rng: Rng::new(seed), budget };
    mon.check_region(region, exp, 0);
}
