//! C03 — sorted stores follow the reader's order; lookup (binary and linear) finds exactly what was written.

use crate::c02::{open_dir_file, open_dir_mem, verify_dir, VerifyOpts};
use crate::dirs::*;
use crate::proto::*;
use crate::rng::Rng;
use crate::util::{self, Scratch};
use jubako as jbk;
use jubako::reader::{CompareTrait, Range as _};
use serde_json::{json, Value};
use std::cmp::Ordering;
use std::sync::Arc;

pub fn count(tier: Tier) -> u64 {
    tier.pick(320, 16000)
}

/// The search itself, exhaustively within a bound: every strictly increasing sequence of length <= 8 over 10 symbols
/// whose smallest element is `first` (k = 0..9 share the work), every window, every probe 0..=10, both modes.
/// The oracle is the position of the probe in the window (`slice::binary_search`).
fn run_find_exhaustive(desc: &Value) -> CaseOut {
    struct Cmp<'a> {
        seq: &'a [u8],
        probe: u8,
        ordered: bool,
    }
    impl CompareTrait for Cmp<'_> {
        fn ordered(&self) -> bool {
            self.ordered
        }
        fn compare_entry(&self, idx: jbk::EntryIdx) -> jbk::Result<Ordering> {
            Ok(self.seq[idx.into_u32() as usize].cmp(&self.probe))
        }
    }
    let mut out = CaseOut::new();
    let first = ju64(desc, "first") as u8;
    let mut sequences = 0u64;
    let mut calls = 0u64;
    let r = util::catch(|| {
        // subsets of {first+1..9} of size <= 7, prefixed by `first` (plus the empty sequence for first == 0)
        let rest: Vec<u8> = (first + 1..10).collect();
        let mut seqs: Vec<Vec<u8>> = vec![];
        for mask in 0u32..(1 << rest.len()) {
            if mask.count_ones() > 7 {
                continue;
            }
            let mut s = vec![first];
            for (i, v) in rest.iter().enumerate() {
                if mask & (1 << i) != 0 {
                    s.push(*v);
                }
            }
            seqs.push(s);
        }
        if first == 0 {
            seqs.push(vec![]);
        }
        for seq in &seqs {
            sequences += 1;
            for off in 0..=seq.len() {
                for cnt in 0..=(seq.len() - off) {
                    let range = jbk::EntryRange::new_from_size(jbk::EntryIdx::from(off as u32), jbk::EntryCount::from(cnt as u32));
                    let window = &seq[off..off + cnt];
                    for probe in 0u8..=10 {
                        let expected = window.binary_search(&probe).ok().map(|p| p as u32);
                        for ordered in [true, false] {
                            calls += 1;
                            let got = range.find(&Cmp { seq, probe, ordered });
                            let got = match got {
                                Ok(g) => g.map(|i| i.into_u32()),
                                Err(e) => {
                                    out.violate(json!({"kind": "find-error", "profile": profile()}), format!("C03: find returned an error: {e}"), json!({}));
                                    return;
                                }
                            };
                            if got != expected {
                                out.violate(
                                    json!({"kind": "find", "mode": if ordered { "binary" } else { "linear" }, "window_offset_zero": off == 0, "expected_present": expected.is_some(), "profile": profile()}),
                                    format!("C03: find over sequence {seq:?} window [{off}, +{cnt}) probe {probe} ({}) answers {got:?}, expected {expected:?}", if ordered { "binary" } else { "linear" }),
                                    json!({}),
                                );
                                if out.viols.len() >= 4 {
                                    return;
                                }
                            }
                        }
                    }
                }
            }
        }
    });
    if let Err(p) = r {
        out.violate_panic("C03", "find", "exhaustive", &p);
    }
    // huge windows (virtual sequence: the entry at absolute position i carries the key i): index arithmetic near 2^31 and 2^32
    if first == 0 {
        struct Ident {
            probe: u64,
        }
        impl CompareTrait for Ident {
            fn ordered(&self) -> bool {
                true
            }
            fn compare_entry(&self, idx: jbk::EntryIdx) -> jbk::Result<Ordering> {
                Ok((idx.into_u32() as u64).cmp(&self.probe))
            }
        }
        let r = util::catch(|| {
            for (off, cnt) in [(0u32, (1u32 << 31) - 1), (0, 1 << 31), (0, (1 << 31) + 1), (0, u32::MAX), (1, u32::MAX - 1), (1 << 31, (1 << 31) - 1), (5, 3_000_000_000)] {
                let range = jbk::EntryRange::new_from_size(jbk::EntryIdx::from(off), jbk::EntryCount::from(cnt));
                let end = off as u64 + cnt as u64;
                for probe in [0u64, 1, off as u64, off as u64 + 1, end / 2, (1 << 31) - 1, 1 << 31, (1 << 31) + 1, end - 1, end, 3_999_999_999] {
                    let expected = if probe >= off as u64 && probe < end { Some((probe - off as u64) as u32) } else { None };
                    calls += 1;
                    match range.find(&Ident { probe }) {
                        Ok(g) => {
                            let g = g.map(|i| i.into_u32());
                            if g != expected {
                                out.violate(
                                    json!({"kind": "find", "mode": "binary", "huge_window": true, "profile": profile()}),
                                    format!("C03: binary find over the window [{off}, +{cnt}) probe {probe} answers {g:?}, expected {expected:?}"),
                                    json!({}),
                                );
                                return;
                            }
                        }
                        Err(e) => {
                            out.violate(json!({"kind": "find-error", "profile": profile()}), format!("C03: find returned an error: {e}"), json!({}));
                            return;
                        }
                    }
                }
            }
            out.obs.inc("find_huge_windows_checked");
        });
        if let Err(p) = r {
            out.violate_panic("C03", "find", "huge-window", &p);
        }
    }
    out.obs.add("find_exhaustive.sequences", sequences);
    out.obs.add("find_exhaustive.calls", calls);
    out.nontrivial = true;
    let mut fp = crate::rng::Fp::new();
    fp.s("find-exhaustive").u(first as u64);
    out.fp = fp.hex();
    out
}

pub fn gen(seed: u64, tier: Tier, k: u64) -> Value {
    if k < 10 {
        return json!({"mode": "find-exhaustive", "first": k});
    }
    if k % 40 == 11 {
        // a store sorted ON a deferred reference (position of the parent, rank): the writer must iterate its sort until
        // the order is stable; what is read back must be non-decreasing in the stored key values
        return crate::c15::gen_sort_on_ref(seed ^ 0x03, k);
    }
    let mut rng = Rng::keyed(seed, "C03", k);
    let quick_prefixes = [0u8, 1, 2, 3, 8, 31];
    let prefix = match tier {
        Tier::Quick => quick_prefixes[(k % 6) as usize],
        Tier::Thorough => (k % 32) as u8,
    };
    let indexed = (k / 6) % 2 == 0;
    let n = if k % 41 == 3 {
        *rng.pick(&[2000usize, 5000])
    } else {
        match rng.below(6) {
            0 => 1,
            1 => 2,
            2 => rng.range(3, 12) as usize,
            _ => rng.range(12, 500) as usize,
        }
    };
    let mut common = vec![];
    let sort: Vec<String>;
    match rng.below(8) {
        0 => {
            common.push(PDef { name: "k".into(), kind: PKind::UInt, col: if rng.chance(1, 2) { Col::Full } else { Col::Width(rng.range(1, 8) as u8) } });
            sort = vec!["k".into()];
        }
        1 => {
            common.push(PDef { name: "k".into(), kind: PKind::SInt, col: if rng.chance(1, 2) { Col::Full } else { Col::Width(rng.range(1, 8) as u8) } });
            sort = vec!["k".into()];
        }
        2 => {
            // two-property key: array then integer
            common.push(PDef { name: "k".into(), kind: PKind::Array { prefix, store: 0 }, col: Col::Arr { max: 3, alpha: 2 } });
            common.push(PDef { name: "k2".into(), kind: PKind::SInt, col: Col::Small });
            sort = vec!["k".into(), "k2".into()];
        }
        3 => {
            // two-property key: small integer then array
            common.push(PDef { name: "k".into(), kind: PKind::UInt, col: Col::Small });
            common.push(PDef { name: "k2".into(), kind: PKind::Array { prefix, store: 0 }, col: Col::Arr { max: 8, alpha: 4 } });
            sort = vec!["k".into(), "k2".into()];
        }
        _ => {
            // array keys sharing prefixes shorter / equal / longer than the inline prefix, with 0x00 and 0xff
            let (max, alpha) = match rng.below(6) {
                0 => (6, 2),
                1 => (10, 4),
                2 => (prefix as u32 + 3, 2),
                3 => (40, 4),
                4 => (24, 0),
                // long keys around the 256 / 512 length boundaries sharing everything but their last bytes
                _ => (0, 0),
            };
            let col = if max == 0 { Col::ArrLong } else { Col::Arr { max, alpha } };
            common.push(PDef { name: "k".into(), kind: PKind::Array { prefix, store: 0 }, col });
            sort = vec!["k".into()];
        }
    }
    common.push(PDef { name: "id".into(), kind: PKind::UInt, col: Col::Seq });
    let store = StoreDef { n, common, variants: vec![], sort: Some(sort), unique_keys: true };
    let mut indexes = vec![IndexDef { name: "all".into(), store: 0, offset: 0, count: n as u32 }];
    if n >= 2 {
        let o = rng.range(1, n as u64 - 1) as u32;
        let c = rng.range(0, (n as u32 - o) as u64) as u32;
        indexes.push(IndexDef { name: "win".into(), store: 0, offset: o, count: c });
        indexes.push(IndexDef { name: "head".into(), store: 0, offset: 0, count: n as u32 - 1 });
    }
    // integers handed over as immediate values, deferred words, or a per-entry mix of both
    let defer = *rng.pick(&[0u8, 0, 1, 1, 2]);
    // free data of the indexes (and of the directory pack when it is created bare): zero, or arbitrary bytes
    let free = if rng.chance(1, 2) { rng.next() | 1 } else { 0 };
    let case = DirCase { seed: rng.next(), vstores: vec![indexed], stores: vec![store], indexes, defer, free };
    let mut v = case.to_json();
    v["via"] = json!(if rng.chance(1, 2) { "file" } else { "mem" });
    v
}

/// Wrapper turning any comparator into an "ordered" one, so that `find` takes the binary-search path.
struct Ordered<C: CompareTrait>(C);
impl<C: CompareTrait> CompareTrait for Ordered<C> {
    fn ordered(&self) -> bool {
        true
    }
    fn compare_entry(&self, idx: jbk::EntryIdx) -> jbk::Result<Ordering> {
        self.0.compare_entry(idx)
    }
}

/// Probe value; integers as a deferred word (`Value::UnsignedWord/SignedWord`) when `word` is set: same value, other form.
fn to_value_as(v: &Val, word: bool) -> jbk::Value {
    match v {
        Val::U(x) if word => jbk::Value::UnsignedWord((*x).into()),
        Val::S(x) if word => jbk::Value::SignedWord((*x).into()),
        Val::Ref(r) if word => jbk::Value::UnsignedWord((*r as u64).into()),
        _ => to_value(v),
    }
}

fn to_value(v: &Val) -> jbk::Value {
    match v {
        Val::U(x) => jbk::Value::Unsigned(*x),
        Val::S(x) => jbk::Value::Signed(*x),
        Val::A(a) => jbk::Value::Array(a.as_slice().into()),
        Val::C(p, c) => jbk::Value::Content(jbk::ContentAddress::new(jbk::PackId::from(*p), jbk::ContentIdx::from(*c))),
        Val::Ref(r) | Val::RefO(_, r) => jbk::Value::Unsigned(*r as u64),
    }
}

fn neighbours(key: &[Val], rng: &mut Rng) -> Vec<Vec<Val>> {
    // absent candidates derived from a present key: last byte +-1, proper prefix, key + 0x00, empty, integer +-1
    let mut out = vec![];
    let last = key.len() - 1;
    match &key[last] {
        Val::A(a) => {
            let mut variants: Vec<Vec<u8>> = vec![vec![]];
            let mut b = a.clone();
            b.push(0x00);
            variants.push(b);
            let mut b = a.clone();
            b.push(0xff);
            variants.push(b);
            if !a.is_empty() {
                variants.push(a[..a.len() - 1].to_vec());
                let mut b = a.clone();
                *b.last_mut().unwrap() = b.last().unwrap().wrapping_add(1);
                variants.push(b);
                let mut b = a.clone();
                *b.last_mut().unwrap() = b.last().unwrap().wrapping_sub(1);
                variants.push(b);
                let mut b = a.clone();
                let i = rng.usize_below(b.len());
                b[i] ^= 0x80;
                variants.push(b);
            }
            for v in variants {
                let mut k = key.to_vec();
                k[last] = Val::A(v);
                out.push(k);
            }
        }
        Val::U(x) => {
            // +-1, the extremes, and the same low bytes with one more significant byte set (a probe wider than the stored width)
            for v in [x.wrapping_add(1), x.wrapping_sub(1), 0, u64::MAX, x.wrapping_add(1 << 8), x.wrapping_add(1 << 16), x.wrapping_add(1 << 32), x.wrapping_add(1 << 56)] {
                let mut k = key.to_vec();
                k[last] = Val::U(v);
                out.push(k);
            }
        }
        Val::S(x) => {
            for v in [x.wrapping_add(1), x.wrapping_sub(1), 0, i64::MIN, -*x.max(&(i64::MIN + 1)), x.wrapping_add(1 << 8), x.wrapping_sub(1 << 8), x.wrapping_add(1 << 16), x.wrapping_add(1 << 32), x.wrapping_sub(1 << 32)] {
                let mut k = key.to_vec();
                k[last] = Val::S(v);
                out.push(k);
            }
        }
        _ => {}
    }
    out
}

pub fn run(desc: &Value, ctx: &Ctx) -> CaseOut {
    if jstr(desc, "mode") == "find-exhaustive" {
        return run_find_exhaustive(desc);
    }
    if jstr(desc, "mode") == "sort-on-ref" {
        return crate::c15::run_sort_on_ref(desc, "C03");
    }
    let mut out = CaseOut::new();
    let case = DirCase::from_json(desc);
    observe(&case, &mut out);
    let st = &case.stores[0];
    let keys = st.sort.clone().unwrap_or_default();
    let via_file = jstr(desc, "via") == "file";
    let scratch = Scratch::new(&ctx.work, "c03");
    let path = scratch.path("d.jbkd");
    let created = util::catch(|| if via_file { create_bare(&case, &path).map(|i| (i, None)) } else { create_mem(&case).map(|(i, b)| (i, Some(b))) });
    let (inst, bytes) = match created {
        Err(p) => {
            out.violate_panic("C03", "create", &crate::c02::dir_class(&case), &p);
            return out;
        }
        Ok(Err(e)) => {
            let models: Vec<Vec<EntryModel>> = (0..case.stores.len()).map(|si| expand(&case, si)).collect();
            if representable(&case, &models).0 != Repr::Yes {
                // too many distinct keys for one indexed value store tail: refusing is the specified behaviour (C02)
                out.obs.inc("unrepresentable_inputs_refused");
                return out;
            }
            out.violate(json!({"kind": "create-error", "message": util::normalize_msg(&e), "profile": profile()}), format!("C03: creation of a sorted store with unique keys failed: {e}"), json!({}));
            return out;
        }
        Ok(Ok(x)) => x,
    };
    let r = util::catch(|| {
        let pack = if let Some(b) = bytes { open_dir_mem(b) } else { open_dir_file(&path) };
        let pack: Arc<jbk::reader::DirectoryPack> = match pack {
            Err(e) => {
                out.violate(json!({"kind": "open-error", "message": util::normalize_msg(&e), "profile": profile()}), format!("C03: pack does not open: {e}"), json!({}));
                return;
            }
            Ok(p) => p,
        };
        // (1) multiset + expected order (model sorts with the reader's comparison)
        verify_dir(&case, &inst, &pack, &mut out, &VerifyOpts { prop: "C03", handles: false });
        if out.verdict == Verdict::Violated {
            return;
        }
        // (2) order monitor on what is actually read + (3) lookup monitor
        lookups(&case, &inst, &pack, &keys, ctx, &mut out);
    });
    if let Err(p) = r {
        out.violate_panic("C03", "read", &crate::c02::dir_class(&case), &p);
    }
    // non-trivial: >= 2 keys sharing a prefix (arrays) or >= 2 keys at all (integers)
    let model = &inst.models[0];
    let mut shared_prefix = false;
    if let Some(k0) = keys.first() {
        let mut firsts: Vec<&Val> = model.iter().map(|e| &e.vals[k0]).collect();
        firsts.sort_by(|a, b| a.cmp_reader(b));
        for w in firsts.windows(2) {
            match (w[0], w[1]) {
                (Val::A(a), Val::A(b)) => {
                    if !a.is_empty() && !b.is_empty() && a[0] == b[0] {
                        shared_prefix = true;
                    }
                }
                _ => shared_prefix = true,
            }
        }
    }
    out.nontrivial = shared_prefix && model.len() >= 2;
    let mut fp = crate::rng::Fp::new();
    fp.s(&out.fp);
    for p in &st.common {
        if let PKind::Array { prefix, store } = &p.kind {
            fp.u(*prefix as u64).u(case.vstores[*store] as u64);
        }
    }
    fp.u(match model.len() { 0..=2 => 0, 3..=50 => 1, 51..=1000 => 2, _ => 3 });
    out.fp = fp.hex();
    out
}

fn lookups(case: &DirCase, inst: &Installed, pack: &Arc<jbk::reader::DirectoryPack>, keys: &[String], ctx: &Ctx, out: &mut CaseOut) {
    let st = &case.stores[0];
    let model = &inst.models[0];
    let order = final_order(st, model);
    let entry_storage = pack.create_entry_storage();
    let value_storage = pack.create_value_storage();
    let mut rng = Rng::new(case.seed ^ 0x6c6f6f6b);
    let key_of = |e: usize| -> Vec<Val> { keys.iter().map(|k| model[e].vals[k].clone()).collect() };
    let cmp_keys = |a: &[Val], b: &[Val]| -> Ordering {
        for (x, y) in a.iter().zip(b.iter()) {
            let c = x.cmp_reader(y);
            if c != Ordering::Equal {
                return c;
            }
        }
        Ordering::Equal
    };
    for ix in &case.indexes {
        let index = match pack.get_index_from_name(&ix.name) {
            Ok(Some(i)) => i,
            _ => continue,
        };
        let store = match index.get_store(&entry_storage) {
            Ok(s) => s,
            Err(_) => continue,
        };
        let builder = match jbk::reader::builder::AnyBuilder::new(store, value_storage.as_ref()) {
            Ok(b) => b,
            Err(_) => continue,
        };
        let window: Vec<usize> = order[ix.offset as usize..(ix.offset + ix.count) as usize].to_vec();
        // order monitor on the keys actually read back
        let mut prev: Option<Vec<Val>> = None;
        for i in 0..ix.count {
            let e = match index.get_entry(&builder, jbk::EntryIdx::from(i)) {
                Ok(Some(e)) => e,
                _ => continue,
            };
            let mut k = vec![];
            for name in keys {
                if let Ok(re) = read_entry(&e, &[], std::slice::from_ref(name)) {
                    if let Some(v) = re.vals.get(name) {
                        k.push(v.clone());
                    }
                }
            }
            if k.len() != keys.len() {
                continue;
            }
            if let Some(p) = &prev {
                out.obs.inc("order_pairs_checked");
                if cmp_keys(p, &k) == Ordering::Greater {
                    out.violate(
                        json!({"kind": "order", "profile": profile()}),
                        format!("C03: index {} entries {} and {i} are stored in decreasing order of the sort key: {:?} > {:?}", ix.name, i - 1, p.iter().map(|v| v.brief()).collect::<Vec<_>>(), k.iter().map(|v| v.brief()).collect::<Vec<_>>()),
                        json!({}),
                    );
                    return;
                }
            }
            prev = Some(k);
        }
        // probes: present keys (all when small, sampled when big), their absent neighbours, keys outside the window
        let mut probes: Vec<Vec<Val>> = vec![];
        let budget = ctx.tier.pick(120, 400);
        if window.len() <= budget {
            for e in &window {
                probes.push(key_of(*e));
            }
        } else {
            for _ in 0..budget {
                probes.push(key_of(*rng.pick(&window)));
            }
            probes.push(key_of(window[0]));
            probes.push(key_of(*window.last().unwrap()));
        }
        let present: Vec<Vec<Val>> = probes.clone();
        for p in present.iter().take(60) {
            probes.extend(neighbours(p, &mut rng));
        }
        for _ in 0..8.min(model.len()) {
            probes.push(key_of(rng.usize_below(model.len())));
        }
        for (pi, probe) in probes.into_iter().enumerate() {
            // expected: position in the window of the (unique) entry carrying exactly this key
            let expected: Option<u32> = window.iter().position(|e| cmp_keys(&key_of(*e), &probe) == Ordering::Equal).map(|p| p as u32);
            let names: Vec<String> = keys.to_vec();
            // integer probes alternate between the immediate and the deferred-word form, opposite forms for the two searches
            let values = |word: bool| probe.iter().map(|v| to_value_as(v, word)).collect::<Vec<_>>();
            let linear = builder.new_multiple_property_compare(names.clone(), values(pi % 2 == 1));
            let lin = index.find(&linear);
            let binary = Ordered(builder.new_multiple_property_compare(names.clone(), values(pi % 2 == 0)));
            let bin = index.find(&binary);
            // the same two searches on the EntryRange converted from the index (`EntryRange::from(&index)`): same window
            {
                let range = jbk::EntryRange::from(&index);
                let rl = range.find(&builder.new_multiple_property_compare(names.clone(), values(false)));
                let rb = range.find(&Ordered(builder.new_multiple_property_compare(names.clone(), values(true))));
                out.obs.add("lookups_on_converted_range", 2);
                for (mode, res) in [("range-linear", &rl), ("range-binary", &rb)] {
                    let got = match res {
                        Ok(v) => Ok(v.map(|i| i.into_u32())),
                        Err(_) => Err(()),
                    };
                    if got != Ok(expected) {
                        out.violate(
                            json!({"kind": "lookup", "mode": mode, "expected_present": expected.is_some(), "window_offset_zero": ix.offset == 0, "profile": profile()}),
                            format!("C03: index {} (offset {} count {}) converted to an EntryRange: {mode} search for {:?} answers {:?}, expected {:?}", ix.name, ix.offset, ix.count, probe.iter().map(|v| v.brief()).collect::<Vec<_>>(), res.as_ref().map(|v| v.map(|i| i.into_u32())).map_err(|e| e.to_string()), expected),
                            json!({}),
                        );
                        return;
                    }
                }
            }
            // single-property keys also go through the single-property constructor, which must agree
            if names.len() == 1 {
                let single = builder.new_property_compare(names[0].clone(), to_value_as(&probe[0], pi % 3 == 0));
                let sres = index.find(&single);
                out.obs.inc("lookups_single_property_constructor");
                let same = match (&sres, &lin) {
                    (Ok(a), Ok(b)) => a.map(|i| i.into_u32()) == b.map(|i| i.into_u32()),
                    (Err(_), Err(_)) => true,
                    _ => false,
                };
                if !same {
                    out.violate(
                        json!({"kind": "lookup", "mode": "single-property", "expected_present": expected.is_some(), "window_offset_zero": ix.offset == 0, "profile": profile()}),
                        format!("C03: index {}: new_property_compare and new_multiple_property_compare disagree for {:?}", ix.name, probe.iter().map(|v| v.brief()).collect::<Vec<_>>()),
                        json!({}),
                    );
                    return;
                }
            }
            out.obs.inc("lookups");
            if expected.is_some() {
                out.obs.inc("lookups_present");
            } else {
                out.obs.inc("lookups_absent");
            }
            let show = |r: &jbk::Result<Option<jbk::EntryIdx>>| match r {
                Ok(Some(i)) => format!("Some({})", i.into_u32()),
                Ok(None) => "None".to_string(),
                Err(e) => format!("Err({e})"),
            };
            let as_opt = |r: &jbk::Result<Option<jbk::EntryIdx>>| -> Result<Option<u32>, ()> {
                match r {
                    Ok(v) => Ok(v.map(|i| i.into_u32())),
                    Err(_) => Err(()),
                }
            };
            for (mode, res) in [("linear", &lin), ("binary", &bin)] {
                if as_opt(res) != Ok(expected) {
                    out.violate(
                        json!({"kind": "lookup", "mode": mode, "expected_present": expected.is_some(), "window_offset_zero": ix.offset == 0, "profile": profile()}),
                        format!("C03: index {} (offset {} count {}): {mode} search for {:?} answers {}, expected {:?}", ix.name, ix.offset, ix.count, probe.iter().map(|v| v.brief()).collect::<Vec<_>>(), show(res), expected),
                        json!({"linear": show(&lin), "binary": show(&bin)}),
                    );
                    if out.viols.len() >= 4 {
                        return;
                    }
                }
            }
        }
    }
}
