//! C09 — creation is all-or-nothing at the destination path.
//! `child`: run BasicCreator in a process the driver kills / starves (RLIMIT_FSIZE, strace, SIGKILL).
//! `inspect`: classify what is at the destination afterwards.

use crate::c01::Pkg;
use crate::cont::*;
use crate::content::*;
use crate::dirs::*;
use crate::indep::{self, PackBody};
use crate::rng::Rng;
use jubako as jbk;
use serde_json::{json, Value};
use std::path::Path;
use std::sync::Arc;

/// Small cases (files of 1.5-6 KB) in two size profiles: content file larger / directory file larger.
pub fn gen_case(seed: u64, profile: &str, pkg: Pkg) -> ContCase {
    let mut rng = Rng::keyed(seed, "C09-case", crate::rng::hash_str(profile) ^ pkg as u64);
    let comp = *rng.pick(&[Comp::Zstd(1), Comp::None, Comp::Lz4(1)]);
    let (n_items, item_len, n_entries) = if profile == "content-larger" { (5, 600, 5) } else { (2, 30, 160) };
    let mut items = vec![];
    for i in 0..n_items {
        items.push(Item { len: item_len + i * 7, ent: *rng.pick(&[Ent::Low4, Ent::High]), hint: if i % 2 == 0 { Hint::Yes } else { Hint::No }, src: Src::Mem, dup_of: None, cat_of: None });
    }
    let content = ContentCase { seed: rng.next(), comp, cached: false, items };
    let files = StoreDef {
        n: n_entries,
        common: vec![
            PDef { name: "cid".into(), kind: PKind::UInt, col: Col::Seq },
            PDef { name: "path".into(), kind: PKind::Array { prefix: 2, store: 0 }, col: Col::Seq },
            PDef { name: "v".into(), kind: PKind::SInt, col: Col::Width(4) },
        ],
        variants: vec![],
        sort: None,
        unique_keys: false,
    };
    let dir = DirCase { seed: rng.next(), vstores: vec![false], stores: vec![files], indexes: vec![IndexDef { name: "files".into(), store: 0, offset: 0, count: n_entries as u32 }], defer: 0, free: 0 };
    ContCase { content, dir, pkg, extra: vec![], id_gap: 0, first_id: 1 }
}

/// exit status: 0 created, 10 creation returned an error, 101 panic
/// `xfsz`: 0 = default (the process dies of SIGXFSZ), 1 = ignored (every write past the limit returns EFBIG),
/// 2 = transient (the first write past the limit returns EFBIG, the handler lifts the limit, later writes succeed).
pub fn child(case: &ContCase, dest_dir: &Path, name: &str, xfsz: u64) -> i32 {
    extern "C" fn lift_limit(_sig: libc::c_int) {
        // async-signal-safe: one system call
        let unlimited = libc::rlimit { rlim_cur: libc::RLIM_INFINITY, rlim_max: libc::RLIM_INFINITY };
        unsafe {
            libc::setrlimit(libc::RLIMIT_FSIZE, &unlimited);
        }
    }
    if xfsz == 1 {
        unsafe {
            libc::signal(libc::SIGXFSZ, libc::SIG_IGN);
        }
    } else if xfsz == 2 {
        unsafe {
            libc::signal(libc::SIGXFSZ, lift_limit as *const () as libc::sighandler_t);
        }
    }
    match create_container(case, dest_dir, name, Arc::new(())) {
        Ok(_) => 0,
        Err(e) => {
            eprintln!("creation returned an error: {e}");
            10
        }
    }
}

fn models_of(case: &DirCase) -> Vec<Vec<EntryModel>> {
    (0..case.stores.len()).map(|si| expand(case, si)).collect()
}

/// Is the container whose entry point is `dest` complete, and does it hold exactly `case`?
pub fn complete(case: &ContCase, dest: &Path) -> Result<(), String> {
    let dir = dest.parent().unwrap();
    // (1) library: opens and verifies
    let c = jbk::reader::Container::new(dest).map_err(|e| format!("Container::new: {e}"))?;
    match c.check() {
        Ok(true) => {}
        Ok(false) => return Err("Container::check() is false".into()),
        Err(e) => return Err(format!("Container::check(): {e}")),
    }
    // (2) independent decoder: the entry point and every file it refers to decode without a broken rule and hold the model
    let entry_bytes = std::fs::read(dest).map_err(|e| e.to_string())?;
    let ev = indep::decode_file(&entry_bytes);
    if let Some(p) = ev.problems.first() {
        return Err(format!("entry point: {p}"));
    }
    let infos = match ev.manifest_pack().map(|p| &p.body) {
        Some(PackBody::Manifest { infos }) => infos.clone(),
        _ => return Err("entry point holds no manifest".into()),
    };
    let mut views = vec![ev];
    for i in &infos {
        if i.location.is_empty() {
            continue;
        }
        let f = dir.join(&i.location);
        let b = std::fs::read(&f).map_err(|e| format!("pack file {} referred to by the entry point: {e}", i.location))?;
        let v = indep::decode_file(&b);
        if let Some(p) = v.problems.first() {
            return Err(format!("pack file {}: {p}", i.location));
        }
        if !v.packs.iter().any(|p| p.hdr.uuid == i.uuid) {
            return Err(format!("pack file {} does not hold the pack {} the manifest describes", i.location, uuid::Uuid::from_bytes(i.uuid)));
        }
        views.push(v);
    }
    let models = models_of(&case.dir);
    let dv = views.iter().find(|v| v.directory_pack().is_some()).ok_or("no directory pack reachable")?;
    let diffs = compare_directory(&case.dir, &models, dv);
    if let Some(d) = diffs.first() {
        return Err(format!("directory content: {d}"));
    }
    let addrs: Vec<jbk::ContentAddress> = (0..case.content.items.len()).map(|i| jbk::ContentAddress::new(jbk::PackId::from(1), jbk::ContentIdx::from(i as u32))).collect();
    let mut ok = false;
    let mut last = String::from("no content pack reachable");
    for v in &views {
        for p in &v.packs {
            if let PackBody::Content { .. } = p.body {
                let d = compare_content(&case.content, &addrs, p);
                if d.is_empty() {
                    ok = true;
                } else {
                    last = format!("content: {}", d[0]);
                }
            }
        }
    }
    if !ok {
        return Err(last);
    }
    Ok(())
}

/// Classify the destination after an interrupted (or finished) creation.
/// `old_dir`: directory holding a copy of the complete container that was at the destination before, if any.
pub fn inspect(case: &ContCase, dest: &Path, old_dir: Option<&Path>) -> Value {
    let dir = dest.parent().unwrap();
    let listing: Vec<String> = list_files(dir).into_iter().map(|p| p.file_name().unwrap().to_string_lossy().into_owned()).collect();
    let leftovers = listing.iter().filter(|n| n.starts_with(".tmp")).count();
    if !dest.exists() {
        // multi-file packagings: pack files may already be there without the entry point: allowed
        return json!({"state": "absent", "listing": listing, "tmp_leftovers": leftovers});
    }
    let now = std::fs::read(dest).unwrap_or_default();
    if let Some(od) = old_dir {
        let old = std::fs::read(od.join(dest.file_name().unwrap())).unwrap_or_default();
        if old == now {
            // previous complete file untouched. Tally (not judged) whether a sibling pack file was already replaced.
            let mut replaced = vec![];
            for f in list_files(od) {
                let name = f.file_name().unwrap().to_string_lossy().into_owned();
                if name == dest.file_name().unwrap().to_string_lossy() {
                    continue;
                }
                let a = std::fs::read(&f).unwrap_or_default();
                let b = std::fs::read(dir.join(&name)).unwrap_or_default();
                if a != b {
                    replaced.push(name);
                }
            }
            return json!({"state": "old", "listing": listing, "tmp_leftovers": leftovers, "old_entry_next_to_replaced_pack": replaced});
        }
    }
    match crate::util::catch(|| complete(case, dest)) {
        Ok(Ok(())) => json!({"state": "new-complete", "listing": listing, "tmp_leftovers": leftovers}),
        Ok(Err(why)) => json!({"state": "bad", "why": why, "listing": listing, "tmp_leftovers": leftovers, "dest_len": now.len()}),
        Err(p) => json!({"state": "bad", "why": format!("reader panicked: {} {}", p.site(), p.msg), "listing": listing, "tmp_leftovers": leftovers, "dest_len": now.len()}),
    }
}
