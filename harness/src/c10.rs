//! C10 — a container reads the same however its packs are packaged.

use crate::c01::Pkg;
use crate::cont::*;
use crate::content::{Comp, ContentCase, Ent, Hint, Item, Src};
use crate::dump::*;
use crate::proto::*;
use crate::rng::{Fp, Rng};
use crate::util::{self, Scratch};
use jubako as jbk;
use serde_json::{json, Value};
use std::path::{Path, PathBuf};
use std::sync::Arc;

pub fn count(tier: Tier) -> u64 {
    tier.pick(96, 3000)
}

pub fn gen(seed: u64, tier: Tier, k: u64) -> Value {
    let mut rng = Rng::keyed(seed, "C10", k);
    let n_extra = match k % 4 {
        0 => 0,
        1 => 0,
        2 => 1,
        _ => 2,
    };
    if (tier == Tier::Quick && k == 7) || (tier == Tier::Thorough && k % 250 == 7) {
        // a container of 256 packs or more (pack counts and pack ids beyond one byte), as loose files and joined into one file
        let mut case = gen_small(&mut rng, tier, Pkg::OneFile, 0, 4);
        let n_content = *rng.pick(&[255usize, 256, 257, 300]);
        for _ in 1..n_content {
            let items = vec![Item { len: rng.range(1, 60) as usize, ent: Ent::High, hint: *rng.pick(&Hint::ALL), src: Src::Mem, dup_of: None, cat_of: None }];
            case.extra.push(ContentCase { seed: rng.next(), comp: if rng.chance(1, 8) { Comp::Zstd(1) } else { Comp::None }, cached: false, items });
        }
        return json!({"case": case.to_json(), "scn_seed": rng.next(), "many": true});
    }
    let mut case = gen_small(&mut rng, tier, Pkg::OneFile, n_extra, 7);
    // pack ids of the extra packs: dense (2, 3) or spread out (holes between the ids, ids beyond one byte)
    if n_extra > 0 && k % 8 >= 6 {
        case.id_gap = *rng.pick(&[1u16, 2, 254]);
    }
    json!({"case": case.to_json(), "scn_seed": rng.next()})
}

fn keep_all(_k: &str) -> bool {
    true
}

fn copy_into(files: &[PathBuf], dir: &Path) -> Vec<PathBuf> {
    std::fs::create_dir_all(dir).unwrap();
    files
        .iter()
        .map(|f| {
            let t = dir.join(f.file_name().unwrap());
            std::fs::copy(f, &t).unwrap();
            t
        })
        .collect()
}

fn permutations(n: usize, limit: usize, rng: &mut Rng) -> Vec<Vec<usize>> {
    let mut all = vec![];
    fn rec(cur: &mut Vec<usize>, used: &mut Vec<bool>, n: usize, all: &mut Vec<Vec<usize>>) {
        if cur.len() == n {
            all.push(cur.clone());
            return;
        }
        for i in 0..n {
            if !used[i] {
                used[i] = true;
                cur.push(i);
                rec(cur, used, n, all);
                cur.pop();
                used[i] = false;
            }
        }
    }
    if n <= 4 {
        rec(&mut vec![], &mut vec![false; n], n, &mut all);
    } else {
        for _ in 0..limit {
            let mut p: Vec<usize> = (0..n).collect();
            rng.shuffle(&mut p);
            all.push(p);
        }
    }
    if all.len() > limit {
        rng.shuffle(&mut all);
        all.truncate(limit);
    }
    all
}

pub fn run(desc: &Value, ctx: &Ctx) -> CaseOut {
    let mut out = CaseOut::new();
    let base = ContCase::from_json(desc.get("case").unwrap());
    let mut rng = Rng::new(ju64(desc, "scn_seed"));
    let scratch = Scratch::new(&ctx.work, "c10");
    crate::dirs::observe(&base.dir, &mut out);
    observe_cont(&base, &mut out);
    let mut fp = Fp::new();
    fp.s(&out.fp).s(base.content.comp.name()).u(base.extra.len() as u64);
    out.fp = fp.hex();
    let mut scenarios = 0u64;
    macro_rules! judge {
        ($scn:expr, $path:expr, $case:expr, $created:expr) => {{
            let mut plan = plan_for($case, Some($created));
            // every other scenario walks packs and contents from the highest pack id down
            plan.reverse = scenarios % 2 == 1;
            let got = dump_container($path, &plan);
            let exp = expected_dump($case, $created, &plan);
            let diffs = diff(&exp, &got, keep_all);
            scenarios += 1;
            out.obs.inc(&format!("scenario.{}", $scn));
            out.obs.add("items_compared", exp.len() as u64);
            if !diffs.is_empty() {
                let first_key = diffs[0].split(':').next().unwrap_or("").split('/').next().unwrap_or("").to_string();
                let outcome = if diffs[0].contains(": err:") { "err" } else if diffs[0].contains(": panic:") { "panic" } else { "differs" };
                out.violate(
                    json!({"kind": "packaging", "scenario": $scn, "item": first_key, "outcome": outcome, "profile": profile()}),
                    format!("C10: scenario {}: {} item(s) differ from the model; first: {}", $scn, diffs.len(), diffs[0]),
                    json!({"diffs": diffs.iter().take(5).collect::<Vec<_>>()}),
                );
            }
        }};
    }
    if jbool(desc, "many") {
        let r = util::catch(|| {
            let n_packs = 2 + base.extra.len();
            out.obs.max("packs_in_one_container", n_packs as u64);
            let loose = scratch.path("loose");
            std::fs::create_dir_all(&loose).unwrap();
            match create_loose(&base, &loose, &|_, f| f.to_string(), None) {
                Ok(created) => judge!("many-packs-loose", &created.path, &base, &created),
                Err(e) => out.violate(json!({"kind": "create-error", "scenario": "many-packs-loose", "message": util::normalize_msg(&e), "profile": profile()}), format!("C10: creating {n_packs} loose packs failed: {e}"), json!({})),
            }
            let one = scratch.path("one");
            std::fs::create_dir_all(&one).unwrap();
            match create_loose(&base, &one, &|_, f| f.to_string(), Some("all.jbk")) {
                Ok(created) => judge!("many-packs-onefile", &created.path, &base, &created),
                Err(e) => out.violate(json!({"kind": "create-error", "scenario": "many-packs-onefile", "message": util::normalize_msg(&e), "profile": profile()}), format!("C10: joining {n_packs} packs into one file failed: {e}"), json!({})),
            }
        });
        if let Err(p) = r {
            out.violate_panic("C10", "scenario", "many", &p);
        }
        out.obs.add("scenarios", scenarios);
        out.nontrivial = scenarios >= 2;
        return out;
    }
    let r = util::catch(|| {
        // 1. the three packagings, created independently
        let mut noconcat: Option<(ContCase, CreatedCont)> = None;
        let mut twofiles: Option<(ContCase, CreatedCont)> = None;
        let mut onefile: Option<(ContCase, CreatedCont)> = None;
        for pkg in [Pkg::OneFile, Pkg::TwoFiles, Pkg::NoConcat] {
            let mut case = base.clone();
            case.pkg = pkg;
            let dir = scratch.path(pkg.as_str());
            std::fs::create_dir_all(&dir).unwrap();
            match create_container(&case, &dir, "c.jbk", Arc::new(())) {
                Err(e) => {
                    out.violate(json!({"kind": "create-error", "scenario": pkg.as_str(), "message": util::normalize_msg(&e), "profile": profile()}), format!("C10: creating packaging {} failed: {e}", pkg.as_str()), json!({}));
                    continue;
                }
                Ok(created) => {
                    judge!(pkg.as_str(), &created.path, &case, &created);
                    match pkg {
                        Pkg::OneFile => onefile = Some((case, created)),
                        Pkg::TwoFiles => twofiles = Some((case, created)),
                        _ => noconcat = Some((case, created)),
                    }
                }
            }
        }
        // 2. concat of the separate files in several orders (extras stay next to the output, found by location)
        for (label, src) in [("concat-noconcat", &noconcat), ("concat-twofiles", &twofiles)] {
            if let Some((case, created)) = src {
                let main: Vec<PathBuf> = created.files.iter().filter(|f| !f.file_name().unwrap().to_string_lossy().starts_with("extra")).cloned().collect();
                let limit = ctx.tier.pick(3, 24);
                for (pi, perm) in permutations(main.len(), limit, &mut rng).into_iter().enumerate() {
                    let dir = scratch.path(&format!("{label}-{pi}"));
                    let extras: Vec<PathBuf> = created.files.iter().filter(|f| f.file_name().unwrap().to_string_lossy().starts_with("extra")).cloned().collect();
                    copy_into(&extras, &dir);
                    let inputs: Vec<PathBuf> = perm.iter().map(|i| main[*i].clone()).collect();
                    let outp = camino::Utf8PathBuf::from_path_buf(dir.join("all.jbk")).unwrap();
                    // the first order of each kind is joined by the command line tool (`jbk concat -o out in…`) when it is there
                    let by_cli = if pi == 0 { crate::cli::concat(&inputs, outp.as_std_path()) } else { None };
                    if pi == 0 {
                        out.obs.inc(if by_cli.is_some() { "joined_by_command_line" } else { "command_line_tool_unavailable" });
                    }
                    let joined = match by_cli {
                        Some(Ok(())) => Ok(Ok(())),
                        Some(Err(e)) => {
                            out.violate(json!({"kind": "concat-error", "scenario": label, "message": util::normalize_msg(&e), "api": "jbk concat", "profile": profile()}), format!("C10: `jbk concat` failed: {e}"), json!({}));
                            continue;
                        }
                        None => util::catch(|| jbk::tools::concat(&inputs, &outp)),
                    };
                    match joined {
                        Ok(Ok(())) => {
                            // include all extras too in one variant
                            judge!(label, outp.as_std_path(), case, created);
                        }
                        Ok(Err(e)) => out.violate(json!({"kind": "concat-error", "scenario": label, "message": util::normalize_msg(&e.to_string()), "profile": profile()}), format!("C10: tools::concat failed: {e}"), json!({})),
                        Err(p) => out.violate_panic("C10", "concat", label, &p),
                    }
                }
                // everything, extras included, in one file, moved alone to an empty directory
                if !case.extra.is_empty() {
                    let dir = scratch.path(&format!("{label}-all"));
                    std::fs::create_dir_all(&dir).unwrap();
                    let mut inputs = created.files.clone();
                    rng.shuffle(&mut inputs);
                    let outp = camino::Utf8PathBuf::from_path_buf(dir.join("all.jbk")).unwrap();
                    if let Ok(Ok(())) = util::catch(|| jbk::tools::concat(&inputs, &outp)) {
                        judge!("concat-with-extras-alone", outp.as_std_path(), case, created);
                    }
                }
            }
        }
        // 3c. packs kept by the application somewhere else and recorded with the EMPTY location: the container is opened with
        //     an application locator that finds a pack by its uuid alone (`Container::new_with_locator`)
        {
            let adir = scratch.path("catalogue-entry");
            let store = scratch.path("catalogue-store");
            std::fs::create_dir_all(&adir).unwrap();
            std::fs::create_dir_all(&store).unwrap();
            if let Ok(created) = create_loose(&base, &adir, &|_, _| String::new(), None) {
                let mut map = std::collections::HashMap::new();
                for f in created.files.iter().filter(|f| **f != created.path) {
                    let to = store.join(f.file_name().unwrap());
                    if std::fs::rename(f, &to).is_ok() {
                        if let Ok(bytes) = std::fs::read(&to) {
                            for pk in crate::indep::decode_file(&bytes).packs {
                                map.insert(uuid::Uuid::from_bytes(pk.hdr.uuid), to.clone());
                            }
                        }
                    }
                }
                let mut plan = plan_for(&base, Some(&created));
                plan.manifest_free = true;
                let got = dump_container_with(&created.path, &plan, Some(Arc::new(UuidLocator(map))));
                let exp = expected_dump(&base, &created, &plan);
                let diffs = diff(&exp, &got, |k| !k.starts_with("check/file/"));
                scenarios += 1;
                out.obs.inc("scenario.application-locator");
                if !diffs.is_empty() {
                    out.violate(
                        json!({"kind": "packaging", "scenario": "application-locator", "item": diffs[0].split(':').next().unwrap_or("").split('/').next().unwrap_or(""), "profile": profile()}),
                        format!("C10: packs recorded with the empty location and served by an application locator (by uuid): {} item(s) differ; first: {}", diffs.len(), diffs[0]),
                        json!({"diffs": diffs.iter().take(5).collect::<Vec<_>>()}),
                    );
                }
            }
        }
        // 3b. a LONE pack appended to a prefix: the manifest of the every-pack-separate packaging (the entry point itself), and
        //     a separate content pack file found through its recorded location; both are opened through their tail
        if let Some((case, created)) = &noconcat {
            for which in ["entry-point", "content-pack"] {
                let dir = scratch.path(&format!("lone-{which}"));
                copy_into(&created.files, &dir);
                let target = if which == "entry-point" {
                    dir.join("c.jbk")
                } else {
                    match created.files.iter().find(|f| f.extension().map(|e| e == "jbkc").unwrap_or(false)) {
                        Some(f) => dir.join(f.file_name().unwrap()),
                        None => continue,
                    }
                };
                let body = std::fs::read(&target).unwrap();
                let plen = *rng.pick(&[1usize, 64, 65, 4096, 70_000]);
                let mut all = rng.bytes(plen);
                all.extend_from_slice(&body);
                std::fs::write(&target, &all).unwrap();
                let mut plan = plan_for(case, Some(created));
                plan.manifest_free = false;
                let mut got = dump_container(&dir.join("c.jbk"), &plan);
                got.retain(|k, _| !k.starts_with("check/file/"));
                let exp = expected_dump(case, created, &plan);
                let diffs = diff(&exp, &got, keep_all);
                scenarios += 1;
                out.obs.inc(&format!("scenario.prefix-lone-{which}"));
                if !diffs.is_empty() {
                    out.violate(
                        json!({"kind": "packaging", "scenario": format!("prefix-lone-{which}"), "item": diffs[0].split(':').next().unwrap_or("").split('/').next().unwrap_or(""), "profile": profile()}),
                        format!("C10: every pack in its own file, the {which} file appended to a prefix: {} item(s) differ; first: {}", diffs.len(), diffs[0]),
                        json!({"diffs": diffs.iter().take(5).collect::<Vec<_>>()}),
                    );
                }
            }
        }
        // 3. one-file container appended to a prefix, opened through the tail fallback
        if let Some((case, created)) = &onefile {
            if case.extra.is_empty() {
                let body = std::fs::read(&created.path).unwrap();
                let mut prefixes: Vec<(String, Vec<u8>)> = vec![];
                for n in [1usize, 7, 63, 64, 65, 4096, 100_000] {
                    prefixes.push((format!("random{n}"), rng.bytes(n)));
                }
                prefixes.push(("text".into(), b"#!/bin/sh\necho this is not a jubako file\nexit 0\n".repeat(20)));
                let mut fake = b"jbkC\0\0\0\0\0\x02".to_vec();
                fake.extend(rng.bytes(118));
                prefixes.push(("fake-header-bad-crc".into(), fake));
                let take = ctx.tier.pick(4, prefixes.len());
                rng.shuffle(&mut prefixes);
                for (name, p) in prefixes.into_iter().take(take) {
                    let dir = scratch.path(&format!("prefix-{name}"));
                    std::fs::create_dir_all(&dir).unwrap();
                    let path = dir.join("embedded.bin");
                    let mut all = p.clone();
                    all.extend_from_slice(&body);
                    std::fs::write(&path, &all).unwrap();
                    let scn = if name.starts_with("random") { "prefix-random" } else if name == "text" { "prefix-text" } else { "prefix-fake-header" };
                    let mut plan = plan_for(case, Some(created));
                    // (tools::open_pack opens pack and container files, not containers embedded after a prefix: neither the
                    // file-level check nor the manifest's records are asked for here)
                    plan.manifest_free = false;
                    let mut got = dump_container(&path, &plan);
                    got.retain(|k, _| !k.starts_with("check/file/"));
                    let exp = expected_dump(case, created, &plan);
                    let diffs = diff(&exp, &got, keep_all);
                    scenarios += 1;
                    out.obs.inc(&format!("scenario.{scn}"));
                    out.obs.set("prefix_lengths", format!("{}", p.len()));
                    if !diffs.is_empty() {
                        out.violate(
                            json!({"kind": "packaging", "scenario": scn, "item": diffs[0].split(':').next().unwrap_or("").split('/').next().unwrap_or(""), "profile": profile()}),
                            format!("C10: container embedded after a {}-byte prefix ({name}): {} item(s) differ; first: {}", p.len(), diffs.len(), diffs[0]),
                            json!({"diffs": diffs.iter().take(5).collect::<Vec<_>>()}),
                        );
                    }
                }
            }
        }
        // 5. extra content packs stored in ANOTHER directory than the container (recorded location is a relative path with ..)
        if !base.extra.is_empty() {
            for pkg in [Pkg::OneFile, Pkg::TwoFiles] {
                let mut case = base.clone();
                case.pkg = pkg;
                let root = scratch.path(&format!("outside-{}", pkg.as_str()));
                let adir = root.join("archive");
                std::fs::create_dir_all(&adir).unwrap();
                match create_container_ex(&case, &adir, "c.jbk", &root.join("pool"), Arc::new(())) {
                    Ok(created) => {
                        judge!("extras-in-another-directory", &created.path, &case, &created);
                        // the same container reached through a symbolic link to its directory placed elsewhere: the recorded
                        // `../pool/…` is relative to where the container really is (the OS resolves `..` after the link)
                        let deep = root.join("elsewhere").join("deep");
                        std::fs::create_dir_all(&deep).unwrap();
                        let link = deep.join("alink");
                        if std::os::unix::fs::symlink(&adir, &link).is_ok() {
                            judge!("extras-via-symlinked-directory", &link.join("c.jbk"), &case, &created);
                        }
                        // and by a relative path from its own directory
                        if let Ok(cwd) = std::env::current_dir() {
                            if std::env::set_current_dir(&adir).is_ok() {
                                judge!("extras-by-relative-path", Path::new("./c.jbk"), &case, &created);
                                // and by its bare file name (the path has no directory component at all)
                                judge!("extras-by-bare-file-name", Path::new("c.jbk"), &case, &created);
                                let _ = std::env::set_current_dir(cwd);
                            }
                        }
                    }
                    Err(e) => out.violate(json!({"kind": "create-error", "scenario": "extras-in-another-directory", "message": util::normalize_msg(&e), "profile": profile()}), format!("C10: creating a container with extra packs in another directory failed: {e}"), json!({})),
                }
            }
        }
        // 6. all the content pack files merged by tools::concat into ONE file, found at each recorded location
        //    (the wanted pack is not necessarily the first one of that file: identity is the uuid)
        if let Some((case, created)) = &twofiles {
            if !case.extra.is_empty() {
                let dir = scratch.path("merged-contents");
                let all: Vec<PathBuf> = created.files.clone();
                let content_files: Vec<PathBuf> = all.iter().filter(|f| f.extension().map(|e| e == "jbkc").unwrap_or(false)).cloned().collect();
                let others: Vec<PathBuf> = all.iter().filter(|f| !content_files.contains(f)).cloned().collect();
                copy_into(&others, &dir);
                let mut inputs = content_files.clone();
                rng.shuffle(&mut inputs);
                // extras first more often than not
                if inputs.first().map(|f| f.file_name().unwrap().to_string_lossy().starts_with("c.")).unwrap_or(false) {
                    inputs.rotate_left(1);
                }
                let merged = camino::Utf8PathBuf::from_path_buf(dir.join("merged.tmp")).unwrap();
                if let Ok(Ok(())) = util::catch(|| jbk::tools::concat(&inputs, &merged)) {
                    for f in &content_files {
                        std::fs::copy(merged.as_std_path(), dir.join(f.file_name().unwrap())).unwrap();
                    }
                    let _ = std::fs::remove_file(merged.as_std_path());
                    let plan = plan_for(case, Some(created));
                    let mut got = dump_container(&dir.join("c.jbk"), &plan);
                    got.retain(|k, _| !k.starts_with("check/file/"));
                    let exp = expected_dump(case, created, &plan);
                    let diffs = diff(&exp, &got, keep_all);
                    scenarios += 1;
                    out.obs.inc("scenario.merged-content-files");
                    if !diffs.is_empty() {
                        out.violate(
                            json!({"kind": "packaging", "scenario": "merged-content-files", "item": diffs[0].split(':').next().unwrap_or("").split('/').next().unwrap_or(""), "profile": profile()}),
                            format!("C10: content pack files merged into one file found at every recorded location: {} item(s) differ; first: {}", diffs.len(), diffs[0]),
                            json!({"diffs": diffs.iter().take(5).collect::<Vec<_>>()}),
                        );
                    }
                }
            }
        }
        // 4. lookup order: the pack inside the file at hand wins over a decoy at the recorded location
        if let (Some((case, created)), Some((_, other))) = (&twofiles, &noconcat) {
            let dir = scratch.path("decoy");
            std::fs::create_dir_all(&dir).unwrap();
            let main: Vec<PathBuf> = created.files.iter().filter(|f| !f.file_name().unwrap().to_string_lossy().starts_with("extra")).cloned().collect();
            let extras: Vec<PathBuf> = created.files.iter().filter(|f| f.file_name().unwrap().to_string_lossy().starts_with("extra")).cloned().collect();
            copy_into(&extras, &dir);
            let outp = camino::Utf8PathBuf::from_path_buf(dir.join("all.jbk")).unwrap();
            if let Ok(Ok(())) = util::catch(|| jbk::tools::concat(&main, &outp)) {
                // decoy: the content pack file of the *other* creation (same logical content, other uuid) at the recorded location
                if let Some(decoy) = other.files.iter().find(|f| f.extension().map(|e| e == "jbkc").unwrap_or(false) && !f.file_name().unwrap().to_string_lossy().starts_with("extra")) {
                    std::fs::copy(decoy, dir.join("c.jbkc")).unwrap();
                    judge!("inside-wins-over-decoy", outp.as_std_path(), case, created);
                }
            }
        }
    });
    if let Err(p) = r {
        out.violate_panic("C10", "scenario", "driver", &p);
    }
    out.obs.add("scenarios", scenarios);
    out.nontrivial = scenarios >= 3;
    out
}
