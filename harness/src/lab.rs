//! Damage lab (C04, C05, C06): specimens built from the seed, damage enumeration aimed by the
//! independent decoder's structure map, execution (full dump with per-item outcome capture),
//! and the three oracles applied to the same observations.

use crate::c01::Pkg;
use crate::cont::*;
use crate::content::*;
use crate::dirs::*;
use crate::dump::*;
use crate::indep::{self, FileView};
use crate::proto::*;
use crate::rng::{Fp, Rng};
use crate::util::{self, Scratch};
use serde_json::{json, Value};
use std::path::{Path, PathBuf};
use std::sync::{Arc, Mutex, OnceLock};

pub struct Specimen {
    pub name: String,
    pub case: ContCase,
    pub dir: PathBuf,
    /// file names (entry point first) with their pristine bytes and decoded structure map
    pub files: Vec<(String, Vec<u8>, FileView)>,
    pub plan: Plan,
    /// number of contents of the main content pack
    pub content_count: usize,
    pub pristine: Dump,
    pub small: bool,
}

fn tiny_case(rng: &mut Rng, pkg: Pkg, comp: Comp) -> ContCase {
    // a very small container (about 1.5-3 KB): 4 contents in a raw and a compressed cluster,
    // one store with variants + an indexed/plain value store, two indexes
    let items = vec![
        Item { len: 40, ent: Ent::High, hint: Hint::No, src: Src::Mem, dup_of: None, cat_of: None },
        Item { len: 300, ent: Ent::Text, hint: Hint::Yes, src: Src::Mem, dup_of: None, cat_of: None },
        Item { len: 0, ent: Ent::Low4, hint: Hint::No, src: Src::Mem, dup_of: None, cat_of: None },
        Item { len: 120, ent: Ent::Mid6, hint: Hint::Yes, src: Src::Mem, dup_of: None, cat_of: None },
    ];
    let content = ContentCase { seed: rng.next(), comp, cached: false, items };
    let files = StoreDef {
        n: 4,
        common: vec![
            PDef { name: "cid".into(), kind: PKind::UInt, col: Col::Seq },
            PDef { name: "addr".into(), kind: PKind::Content, col: Col::Seq },
            PDef { name: "path".into(), kind: PKind::Array { prefix: 2, store: 0 }, col: Col::Seq },
            PDef { name: "s".into(), kind: PKind::SInt, col: Col::Width(3) },
        ],
        variants: vec![
            VariantDef { name: "F".into(), props: vec![PDef { name: "size".into(), kind: PKind::UInt, col: Col::Width(2) }] },
            VariantDef { name: "D".into(), props: vec![PDef { name: "tag".into(), kind: PKind::Array { prefix: 0, store: 1 }, col: Col::Arr { max: 6, alpha: 4 } }] },
        ],
        sort: Some(vec!["path".into()]),
        unique_keys: true,
    };
    let dir = DirCase {
        seed: rng.next(),
        vstores: vec![false, true],
        stores: vec![files],
        indexes: vec![IndexDef { name: "files".into(), store: 0, offset: 0, count: 4 }, IndexDef { name: "tail".into(), store: 0, offset: 1, count: 3 }],
        defer: 0,
        free: 0x5eed_f7ee_da7a,
    };
    ContCase { content, dir, pkg, extra: vec![], id_gap: 0, first_id: 1 }
}

fn medium_case(rng: &mut Rng) -> ContCase {
    // content table > 4 KiB (1100 contents), entry store > 4 KiB, raw and compressed clusters, >= 3 clusters
    let mut items = vec![];
    for i in 0..1100 {
        let hint = if i % 3 == 0 { Hint::No } else { Hint::Yes };
        items.push(Item { len: 1 + (i % 7), ent: Ent::Low4, hint, src: Src::Mem, dup_of: None, cat_of: None });
    }
    items.push(Item { len: 3_000_000, ent: Ent::Low4, hint: Hint::Yes, src: Src::Mem, dup_of: None, cat_of: None });
    items.push(Item { len: 2_000_000, ent: Ent::Low4, hint: Hint::Yes, src: Src::Mem, dup_of: None, cat_of: None });
    items.push(Item { len: 70_000, ent: Ent::High, hint: Hint::No, src: Src::Mem, dup_of: None, cat_of: None });
    // one compressed cluster holding several contents and spanning many compressed blocks (6-bit data: about 3/4 of its size
    // once compressed): damage in the middle of it makes decoding fail after a prefix has been decoded and published
    for _ in 0..6 {
        items.push(Item { len: 300_000, ent: Ent::Mid6, hint: Hint::Yes, src: Src::Mem, dup_of: None, cat_of: None });
    }
    let n = items.len();
    let content = ContentCase { seed: rng.next(), comp: Comp::Zstd(1), cached: false, items };
    let files = StoreDef {
        n,
        common: vec![
            PDef { name: "cid".into(), kind: PKind::UInt, col: Col::Seq },
            PDef { name: "addr".into(), kind: PKind::Content, col: Col::Seq },
            PDef { name: "path".into(), kind: PKind::Array { prefix: 1, store: 0 }, col: Col::Seq },
            PDef { name: "mime".into(), kind: PKind::Array { prefix: 0, store: 1 }, col: Col::Arr { max: 5, alpha: 2 } },
        ],
        variants: vec![],
        sort: None,
        unique_keys: false,
    };
    let dir = DirCase { seed: rng.next(), vstores: vec![false, true], stores: vec![files], indexes: vec![IndexDef { name: "files".into(), store: 0, offset: 0, count: n as u32 }], defer: 0, free: 0 };
    ContCase { content, dir, pkg: Pkg::OneFile, extra: vec![], id_gap: 0, first_id: 1 }
}

fn large_table_case(rng: &mut Rng) -> ContCase {
    // 17 000 contents: the content table (4 bytes each) exceeds 64 KiB, five clusters closed by the blob-count limit
    // (sizes vary from one content to the next: an address resolving to a neighbouring blob shows in the size it reports)
    let items: Vec<Item> = (0..17_000usize).map(|i| Item { len: 1 + (i * 7) % 5, ent: Ent::High, hint: Hint::No, src: Src::Mem, dup_of: None, cat_of: None }).collect();
    let content = ContentCase { seed: rng.next(), comp: Comp::None, cached: false, items };
    let files = StoreDef {
        n: 12,
        common: vec![PDef { name: "cid".into(), kind: PKind::UInt, col: Col::Seq }, PDef { name: "addr".into(), kind: PKind::Content, col: Col::Seq }],
        variants: vec![],
        sort: None,
        unique_keys: false,
    };
    let dir = DirCase { seed: rng.next(), vstores: vec![], stores: vec![files], indexes: vec![IndexDef { name: "files".into(), store: 0, offset: 0, count: 12 }], defer: 0, free: 0 };
    ContCase { content, dir, pkg: Pkg::TwoFiles, extra: vec![], id_gap: 0, first_id: 1 }
}

static SPECIMENS: OnceLock<Vec<Specimen>> = OnceLock::new();
static SPEC_SCRATCH: Mutex<Option<Scratch>> = Mutex::new(None);

pub fn specimen_cases(seed: u64) -> Vec<(String, ContCase, bool)> {
    let mut rng = Rng::keyed(seed, "lab-specimens", 0);
    vec![
        ("onefile-zstd".into(), tiny_case(&mut rng, Pkg::OneFile, Comp::Zstd(3)), true),
        ("onefile-none".into(), tiny_case(&mut rng, Pkg::OneFile, Comp::None), true),
        ("twofiles-lz4".into(), tiny_case(&mut rng, Pkg::TwoFiles, Comp::Lz4(1)), true),
        ("noconcat-lzma".into(), tiny_case(&mut rng, Pkg::NoConcat, Comp::Lzma(0)), true),
        ("medium-zstd".into(), medium_case(&mut rng), false),
        // a table of more than 64 KiB (17 000 contents), read from a file of its own
        ("large-table".into(), large_table_case(&mut rng), false),
        // three content packs all recorded with the empty location, joined with the other packs by tools::concat
        ("loose-concat".into(), loose_case(&mut rng), true),
        // the same, the content packs numbered from 0 (a content pack may carry the id 0: the directory pack is not in that list)
        ("loose-zero-id".into(), { let mut c = loose_case(&mut rng); c.first_id = 0; c }, true),
        // the same with pack ids 1, 7, 13 (holes between them) and every pack recorded with the name of the file it came from,
        // which no longer exists once the packs are joined (the packs are found in the file at hand, by uuid)
        ("loose-sparse-stale".into(), { let mut c = loose_case(&mut rng); c.id_gap = 5; c }, true),
        // separate files, the first extra content pack is unavailable (file removed): the present ones must still be checked
        ("twofiles-missing-extra".into(), missing_case(&mut rng), true),
    ]
}

fn missing_case(rng: &mut Rng) -> ContCase {
    let mut c = loose_case(rng);
    c.pkg = Pkg::TwoFiles;
    c
}

fn loose_case(rng: &mut Rng) -> ContCase {
    let mut c = tiny_case(rng, Pkg::OneFile, Comp::Zstd(1));
    for comp in [Comp::None, Comp::Lz4(0)] {
        let items = vec![
            Item { len: 60, ent: Ent::High, hint: Hint::No, src: Src::Mem, dup_of: None, cat_of: None },
            Item { len: 200, ent: Ent::Low4, hint: Hint::Yes, src: Src::Mem, dup_of: None, cat_of: None },
        ];
        c.extra.push(ContentCase { seed: rng.next(), comp, cached: false, items });
    }
    c
}

pub fn build_specimen(name: &str, case: &ContCase, small: bool, dir: &Path) -> Result<Specimen, String> {
    std::fs::create_dir_all(dir).map_err(|e| e.to_string())?;
    let created = if name == "loose-sparse-stale" {
        create_loose(case, dir, &|_, f| f.to_string(), Some("c.jbk"))?
    } else if name == "loose-concat" || name == "loose-zero-id" {
        create_loose(case, dir, &|_, _| String::new(), Some("c.jbk"))?
    } else if name == "loose-dup-concat" {
        create_loose(case, dir, &|_, _| String::new(), Some("dup:c.jbk"))?
    } else {
        create_container(case, dir, "c.jbk", Arc::new(()))?
    };
    let _ = std::fs::remove_dir_all(dir.join("inputs"));
    let mut created = created;
    if name == "twofiles-missing-extra" {
        // pack id 2 goes missing
        let gone = dir.join("extra2.jbkc");
        let _ = std::fs::remove_file(&gone);
        created.files.retain(|f| *f != gone);
    }
    let mut files = vec![];
    for f in &created.files {
        let bytes = std::fs::read(f).map_err(|e| e.to_string())?;
        let view = indep::decode_file(&bytes);
        files.push((f.file_name().unwrap().to_string_lossy().into_owned(), bytes, view));
    }
    let mut plan = plan_for(case, Some(&created));
    // the pristine dump always covers every content (damaged dumps may cover a sample, see below)
    let pristine = dump_container(&created.path, &plan);
    let content_count = case.content.expected_count();
    if plan.addrs.len() > 4000 {
        // a very long content table: every eighth content, plus the first and last hundred (a dump stays within tens of ms)
        let n = plan.addrs.len();
        let mut i = 0;
        plan.addrs.retain(|_| {
            i += 1;
            i % 8 == 1 || i <= 100 || i + 100 > n
        });
    }
    Ok(Specimen { name: name.to_string(), case: case.clone(), dir: dir.to_path_buf(), files, plan, pristine, small, content_count })
}

pub fn specimens(seed: u64, work: &Path) -> &'static Vec<Specimen> {
    SPECIMENS.get_or_init(|| {
        let scratch = Scratch::new(work, "specimens");
        let mut v = vec![];
        for (name, case, small) in specimen_cases(seed) {
            match build_specimen(&name, &case, small, &scratch.path(&name)) {
                Ok(s) => v.push(s),
                Err(e) => eprintln!("specimen {name} cannot be built: {e}"),
            }
        }
        *SPEC_SCRATCH.lock().unwrap() = Some(scratch);
        v
    })
}

pub fn drop_specimens() {
    *SPEC_SCRATCH.lock().unwrap() = None;
}

// ------------------------------------------------------------------------------------------------
// damage

#[derive(Clone, Debug)]
pub enum Damage {
    Flip { file: usize, pos: u64, mask: u8 },
    Multi { file: usize, flips: Vec<(u64, u8)> },
    /// one byte of a CRC-protected block altered AND the block's CRC recomputed (the flips include the CRC bytes): only the
    /// pack's own checksum can still notice
    Refit { file: usize, flips: Vec<(u64, u8)> },
    Zero { file: usize, start: u64, len: u64 },
    Overwrite { file: usize, start: u64, len: u64, seed: u64 },
    Truncate { file: usize, len: u64 },
    Append { file: usize, n: u64, seed: u64 },
    Replace { file: usize, kind: String },
}

impl Damage {
    pub fn to_json(&self) -> Value {
        match self {
            Damage::Flip { file, pos, mask } => json!({"op": "flip", "file": file, "pos": pos, "mask": mask}),
            Damage::Multi { file, flips } => json!({"op": "multi", "file": file, "flips": flips}),
            Damage::Refit { file, flips } => json!({"op": "crc-refit", "file": file, "flips": flips}),
            Damage::Zero { file, start, len } => json!({"op": "zero", "file": file, "start": start, "len": len}),
            Damage::Overwrite { file, start, len, seed } => json!({"op": "overwrite", "file": file, "start": start, "len": len, "seed": seed}),
            Damage::Truncate { file, len } => json!({"op": "truncate", "file": file, "len": len}),
            Damage::Append { file, n, seed } => json!({"op": "append", "file": file, "n": n, "seed": seed}),
            Damage::Replace { file, kind } => json!({"op": "replace", "file": file, "kind": kind}),
        }
    }
    pub fn from_json(v: &Value) -> Damage {
        let file = ju64(v, "file") as usize;
        match jstr(v, "op") {
            "flip" => Damage::Flip { file, pos: ju64(v, "pos"), mask: ju64(v, "mask") as u8 },
            "multi" => Damage::Multi { file, flips: jarr(v, "flips").iter().map(|f| (f[0].as_u64().unwrap_or(0), f[1].as_u64().unwrap_or(1) as u8)).collect() },
            "crc-refit" => Damage::Refit { file, flips: jarr(v, "flips").iter().map(|f| (f[0].as_u64().unwrap_or(0), f[1].as_u64().unwrap_or(1) as u8)).collect() },
            "zero" => Damage::Zero { file, start: ju64(v, "start"), len: ju64(v, "len") },
            "overwrite" => Damage::Overwrite { file, start: ju64(v, "start"), len: ju64(v, "len"), seed: ju64(v, "seed") },
            "truncate" => Damage::Truncate { file, len: ju64(v, "len") },
            "append" => Damage::Append { file, n: ju64(v, "n"), seed: ju64(v, "seed") },
            _ => Damage::Replace { file, kind: jstr(v, "kind").to_string() },
        }
    }
    pub fn file(&self) -> usize {
        match self {
            Damage::Flip { file, .. } | Damage::Multi { file, .. } | Damage::Refit { file, .. } | Damage::Zero { file, .. } | Damage::Overwrite { file, .. } | Damage::Truncate { file, .. } | Damage::Append { file, .. } | Damage::Replace { file, .. } => *file,
        }
    }
    pub fn op(&self) -> &'static str {
        match self {
            Damage::Flip { .. } => "flip",
            Damage::Multi { .. } => "multi",
            Damage::Refit { .. } => "crc-refit",
            Damage::Zero { .. } => "zero",
            Damage::Overwrite { .. } => "overwrite",
            Damage::Truncate { .. } => "truncate",
            Damage::Append { .. } => "append",
            Damage::Replace { .. } => "replace",
        }
    }
    /// Apply to `bytes`; returns the list of positions whose byte really changed (None = length change)
    pub fn apply(&self, bytes: &mut Vec<u8>) -> Vec<u64> {
        let mut changed = vec![];
        match self {
            Damage::Flip { pos, mask, .. } => {
                if let Some(b) = bytes.get_mut(*pos as usize) {
                    *b ^= mask;
                    if *mask != 0 {
                        changed.push(*pos);
                    }
                }
            }
            Damage::Multi { flips, .. } | Damage::Refit { flips, .. } => {
                // the same position may be drawn twice: only positions whose byte ends up different count as changed
                let before = bytes.clone();
                for (pos, mask) in flips {
                    if let Some(b) = bytes.get_mut(*pos as usize) {
                        *b ^= mask;
                    }
                }
                let mut ps: Vec<u64> = flips.iter().map(|(p, _)| *p).collect();
                ps.sort();
                ps.dedup();
                for p in ps {
                    if bytes.get(p as usize) != before.get(p as usize) {
                        changed.push(p);
                    }
                }
            }
            Damage::Zero { start, len, .. } => {
                for p in *start..(*start + *len).min(bytes.len() as u64) {
                    if bytes[p as usize] != 0 {
                        bytes[p as usize] = 0;
                        changed.push(p);
                    }
                }
            }
            Damage::Overwrite { start, len, seed, .. } => {
                let noise = Rng::new(*seed).bytes(*len as usize);
                for (i, p) in (*start..(*start + *len).min(bytes.len() as u64)).enumerate() {
                    if bytes[p as usize] != noise[i] {
                        bytes[p as usize] = noise[i];
                        changed.push(p);
                    }
                }
            }
            Damage::Truncate { len, .. } => {
                let old = bytes.len() as u64;
                bytes.truncate(*len as usize);
                for p in *len..old {
                    if changed.len() < 4096 {
                        changed.push(p);
                    }
                }
            }
            Damage::Append { n, seed, .. } => {
                let old = bytes.len() as u64;
                bytes.extend(Rng::new(*seed).bytes(*n as usize));
                changed.push(old);
            }
            Damage::Replace { kind, .. } => {
                let new: Vec<u8> = match kind.as_str() {
                    "empty" => vec![],
                    "short" => b"jbk".to_vec(),
                    "magic" => b"jbkC".to_vec(),
                    "magic-version" => b"jbkC\0\0\0\0\0\x02".to_vec(),
                    "text" => b"This is definitely not a Jubako container.\n".repeat(40),
                    "random63" => Rng::new(63).bytes(63),
                    "random64" => Rng::new(64).bytes(64),
                    "random200" => Rng::new(200).bytes(200),
                    _ => Rng::new(5000).bytes(5000),
                };
                *bytes = new;
                changed.push(0);
            }
        }
        changed
    }
}

/// Enumerate the damage cases of one tier. Deterministic in (seed, tier) given the specimens' layout.
pub fn enumerate(specs: &[Specimen], seed: u64, tier: Tier, only_covered: bool) -> Vec<(usize, Damage)> {
    let mut rng = Rng::keyed(seed, "lab-enum", 0);
    let mut cases = vec![];
    let masks = [0x01u8, 0x80, 0xff];
    for (si, s) in specs.iter().enumerate() {
        for (fi, (_, bytes, view)) in s.files.iter().enumerate() {
            let len = bytes.len() as u64;
            let is_target = |pos: u64| -> bool {
                if !only_covered {
                    return true;
                }
                view.spans.iter().any(|sp| sp.start <= pos && pos < sp.end && (sp.covered || sp.check_block) && sp.pack != usize::MAX && !sp.name.contains("masked"))
                    && !view.spans.iter().any(|sp| sp.start <= pos && pos < sp.end && sp.name.contains("masked"))
            };
            if s.small {
                match tier {
                    Tier::Thorough => {
                        for pos in 0..len {
                            if is_target(pos) {
                                for m in masks {
                                    cases.push((si, Damage::Flip { file: fi, pos, mask: m }));
                                }
                            }
                        }
                    }
                    Tier::Quick => {
                        // every byte of the first specimen's entry point with one mask, stratified sample elsewhere
                        let every = si == 0 && fi == 0;
                        for pos in 0..len {
                            if !is_target(pos) {
                                continue;
                            }
                            if every {
                                cases.push((si, Damage::Flip { file: fi, pos, mask: masks[(pos % 3) as usize] }));
                            } else if rng.chance(1, 4) {
                                cases.push((si, Damage::Flip { file: fi, pos, mask: *rng.pick(&masks) }));
                            }
                        }
                    }
                }
            } else {
                // medium specimen: k positions per named structure, plus uniform positions
                // (the specimen with the very long table costs tens of ms per case: fewer positions per structure there)
                let per = if s.name == "large-table" { tier.pick(1, 12) } else { tier.pick(6, 60) };
                let mut named: Vec<&indep::Span> = view.spans.iter().filter(|sp| sp.name != "pack body (covered)" && sp.end > sp.start).collect();
                named.sort_by_key(|sp| (sp.start, sp.end));
                for sp in named {
                    // structures of 4 KiB and more are read through the memory-mapped path: more positions there
                    let big = sp.end - sp.start >= 4096 && !sp.name.starts_with("cluster data");
                    let per = if big { per * 32 } else { per };
                    for _ in 0..per {
                        let pos = sp.start + rng.below(sp.end - sp.start);
                        if is_target(pos) {
                            // (tables of packed fields: also a bit in the middle of a byte)
                            let mask = if big { *rng.pick(&[0x01u8, 0x08, 0x10, 0x80, 0xff]) } else { *rng.pick(&masks) };
                            cases.push((si, Damage::Flip { file: fi, pos, mask }));
                        }
                    }
                }
                for _ in 0..tier.pick(40, 600) {
                    let pos = rng.below(len);
                    if is_target(pos) {
                        cases.push((si, Damage::Flip { file: fi, pos, mask: *rng.pick(&masks) }));
                    }
                }
            }
            // multi-byte and range damage
            let n_multi = if s.small { tier.pick(12, 200) } else { tier.pick(10, 100) };
            for _ in 0..n_multi {
                // 2..8 positions inside one pack
                let spans: Vec<&indep::Span> = view.spans.iter().filter(|sp| sp.name == "pack body (covered)").collect();
                if spans.is_empty() {
                    break;
                }
                let sp = *rng.pick(&spans);
                let k = rng.range(2, 8);
                let flips: Vec<(u64, u8)> = (0..k).map(|_| (sp.start + rng.below(sp.end - sp.start), *rng.pick(&masks))).filter(|(p, _)| is_target(*p)).collect();
                if flips.len() >= 2 {
                    cases.push((si, Damage::Multi { file: fi, flips }));
                }
            }
            // zeroed ranges that take a block's CRC with them: the last bytes of the data of a CRC-protected block and the 4 CRC
            // bytes that follow, for every block (a checksum of zero is a checksum like any other)
            for (bstart, blen) in &view.blocks {
                let end = bstart + blen;
                let start = end.saturating_sub(8).max(*bstart);
                if end + 4 <= len {
                    cases.push((si, Damage::Zero { file: fi, start, len: end + 4 - start }));
                }
            }
            // big compressed clusters: 140 KiB of noise in the middle and towards the end: more than one compressed block, so
            // that a block header is hit and decoding FAILS after a prefix of the cluster has been decoded and published (noise
            // inside entropy-coded literals mostly decodes, to other bytes, without any error)
            for sp in view.spans.iter().filter(|sp| sp.name == "cluster data (compressed)" && sp.end - sp.start >= 65_536) {
                for frac in [2u64, 4] {
                    let start = sp.start + (sp.end - sp.start) * (frac - 1) / frac;
                    cases.push((si, Damage::Overwrite { file: fi, start, len: (140 * 1024).min(sp.end - start), seed: rng.next() }));
                }
            }
            if only_covered {
                // two positions at once: the check kind byte of a pack (1 -> 0, its block's CRC left as it is) and a byte of that
                // pack's data: the check block no longer verifies, so the hash it names cannot be "no hash"
                for cb in view.spans.iter().filter(|sp| sp.check_block && sp.pack != usize::MAX) {
                    if let Some(data) = view.spans.iter().find(|sp| sp.pack == cb.pack && sp.name.starts_with("cluster data") && sp.end > sp.start) {
                        cases.push((si, Damage::Multi { file: fi, flips: vec![(cb.start, 0x01), (data.start + (data.end - data.start) / 2, 0x40)] }));
                    }
                }
                // CRC-consistent alterations: one byte of a CRC-protected block and the block's CRC refreshed
                for (bstart, blen) in &view.blocks {
                    if *blen == 0 {
                        continue;
                    }
                    // every covered byte of a block that has few of them (a pack info: its first 38 bytes), a sample otherwise
                    let targets: Vec<u64> = (0..*blen).filter(|o| is_target(bstart + o)).collect();
                    let picks: Vec<u64> = if targets.len() <= 48 || (s.small && tier == Tier::Thorough && *blen <= 300) {
                        targets
                    } else {
                        (0..tier.pick(2, 12)).map(|_| *rng.pick(&targets)).collect()
                    };
                    for off in picks {
                        let pos = bstart + off;
                        if !is_target(pos) {
                            continue;
                        }
                        // not the first byte of a check block (the check kind): with the CRC refreshed, kind 0 is the format's
                        // well-formed "no check" declaration (spec/pack.rst), which no pack-level check can tell from an original
                        if off == 0 && view.spans.iter().any(|sp| sp.check_block && sp.start == *bstart) {
                            continue;
                        }
                        let mask = *rng.pick(&masks);
                        let mut data = bytes[*bstart as usize..(*bstart + *blen) as usize].to_vec();
                        data[off as usize] ^= mask;
                        let new_crc = indep::crc32c_be(&data).to_be_bytes();
                        let mut flips = vec![(pos, mask)];
                        for i in 0..4u64 {
                            let at = bstart + blen + i;
                            let m = bytes[at as usize] ^ new_crc[i as usize];
                            if m != 0 {
                                flips.push((at, m));
                            }
                        }
                        cases.push((si, Damage::Refit { file: fi, flips }));
                    }
                }
            }
            for _ in 0..if s.small { tier.pick(10, 150) } else { tier.pick(8, 80) } {
                let start = rng.below(len);
                let l = rng.range(1, 64.min(len - start).max(1));
                if !only_covered || (is_target(start) && is_target(start + l - 1)) {
                    if rng.chance(1, 2) {
                        cases.push((si, Damage::Zero { file: fi, start, len: l }));
                    } else {
                        cases.push((si, Damage::Overwrite { file: fi, start, len: l, seed: rng.next() }));
                    }
                }
            }
            if only_covered {
                continue;
            }
            // truncations: every length (thorough, small) or boundaries +-1 and a sample
            let mut lens: Vec<u64> = vec![];
            if s.small && tier == Tier::Thorough {
                lens.extend(0..len);
            } else {
                let mut b: Vec<u64> = view.spans.iter().flat_map(|sp| [sp.start, sp.end]).collect();
                b.sort();
                b.dedup();
                for x in b {
                    for d in [-1i64, 0, 1] {
                        let l = x as i64 + d;
                        if l >= 0 && (l as u64) < len {
                            lens.push(l as u64);
                        }
                    }
                }
                for _ in 0..tier.pick(12, 120) {
                    lens.push(rng.below(len));
                }
                for l in [0u64, 1, 3, 4, 10, 59, 60, 63, 64, 65, 127, 128, 129] {
                    if l < len {
                        lens.push(l);
                    }
                }
                lens.sort();
                lens.dedup();
                if tier == Tier::Quick && lens.len() > 60 {
                    rng.shuffle(&mut lens);
                    lens.truncate(60);
                }
                // always: the file cut exactly where a pack starts or ends (what then ends the file is a whole pack, tail included)
                for p in &view.packs {
                    for l in [p.origin, p.origin + p.hdr.pack_size] {
                        if l > 0 && l < len {
                            lens.push(l);
                        }
                    }
                }
                lens.sort();
                lens.dedup();
            }
            for l in lens {
                cases.push((si, Damage::Truncate { file: fi, len: l }));
            }
            for n in [1u64, 4, 64, 100, 5000] {
                cases.push((si, Damage::Append { file: fi, n, seed: rng.next() }));
            }
            if fi == 0 || tier == Tier::Thorough {
                for kind in ["empty", "short", "magic", "magic-version", "text", "random63", "random64", "random200", "random5000"] {
                    cases.push((si, Damage::Replace { file: fi, kind: kind.to_string() }));
                }
            }
        }
    }
    cases
}

// ------------------------------------------------------------------------------------------------
// execution + oracles

#[derive(Clone, Copy, PartialEq, Eq)]
pub enum Oracle {
    C04,
    C05,
    C06,
}

fn plan_cache() -> &'static Mutex<std::collections::HashMap<(u64, u8, bool), Arc<Vec<(usize, Damage)>>>> {
    static C: OnceLock<Mutex<std::collections::HashMap<(u64, u8, bool), Arc<Vec<(usize, Damage)>>>>> = OnceLock::new();
    C.get_or_init(Default::default)
}

pub fn cases_for(seed: u64, tier: Tier, oracle: Oracle, work: &Path) -> Arc<Vec<(usize, Damage)>> {
    let key = (seed, tier as u8, oracle == Oracle::C04);
    if let Some(c) = plan_cache().lock().unwrap().get(&key) {
        return c.clone();
    }
    let specs = specimens(seed, work);
    let v = Arc::new(enumerate(specs, seed, tier, oracle == Oracle::C04));
    plan_cache().lock().unwrap().insert(key, v.clone());
    v
}

pub fn count_for(seed: u64, tier: Tier, oracle: Oracle, work: &Path) -> u64 {
    cases_for(seed, tier, oracle, work).len() as u64
}

pub fn gen_for(seed: u64, tier: Tier, k: u64, oracle: Oracle, work: &Path) -> Value {
    let cases = cases_for(seed, tier, oracle, work);
    let specs = specimens(seed, work);
    let (si, d) = &cases[k as usize];
    let s = &specs[*si];
    let (fname, _, view) = &s.files[d.file()];
    // name of the damaged structure (first changed position) for signatures
    let pos = match d {
        Damage::Flip { pos, .. } => Some(*pos),
        Damage::Multi { flips, .. } | Damage::Refit { flips, .. } => flips.first().map(|f| f.0),
        Damage::Zero { start, .. } | Damage::Overwrite { start, .. } => Some(*start),
        Damage::Truncate { len, .. } => Some(*len),
        _ => None,
    };
    let structure = pos.and_then(|p| view.owner(p).map(|sp| sp.name.clone())).unwrap_or_else(|| "-".into());
    json!({"specimen": s.name, "file": fname, "damage": d.to_json(), "structure": structure, "seed": seed})
}

fn structure_class(name: &str) -> &str {
    name
}

/// Apply the damage to a copy of the specimen; returns the directory and the changed positions.
fn materialize(s: &Specimen, d: &Damage, scratch: &Scratch) -> (PathBuf, Vec<u64>) {
    let dir = scratch.path("x");
    std::fs::create_dir_all(&dir).unwrap();
    let mut changed = vec![];
    for (fi, (name, bytes, _)) in s.files.iter().enumerate() {
        if fi == d.file() {
            let mut b = bytes.clone();
            changed = d.apply(&mut b);
            std::fs::write(dir.join(name), &b).unwrap();
        } else {
            std::fs::write(dir.join(name), bytes).unwrap();
        }
    }
    (dir, changed)
}

pub fn run_for(desc: &Value, ctx: &Ctx, oracle: Oracle) -> CaseOut {
    let mut out = CaseOut::new();
    let seed = ju64(desc, "seed");
    let specs = specimens(if seed == 0 { ctx.seed } else { seed }, &ctx.work);
    let sname = jstr(desc, "specimen");
    let s = match specs.iter().find(|s| s.name == sname) {
        Some(s) => s,
        None => {
            out.inconclusive(format!("specimen {sname} not available"));
            return out;
        }
    };
    let d = Damage::from_json(desc.get("damage").unwrap_or(&Value::Null));
    let structure = jstr(desc, "structure").to_string();
    let scratch = Scratch::new(&ctx.work, "lab");
    let (dir, changed) = materialize(s, &d, &scratch);
    let (fname, _, view) = &s.files[d.file()];
    let mut fp = Fp::new();
    fp.s(&s.name).s(fname).s(&d.to_json().to_string());
    out.fp = fp.hex();
    out.obs.inc(&format!("op.{}", d.op()));
    out.obs.inc(&format!("specimen.{}", s.name));
    out.obs.set("structures_damaged", structure.clone());
    // non-trivial: the damage really changed a byte attributed to a named structure
    let changed_named = changed.iter().any(|p| view.owner(*p).is_some()) || matches!(d, Damage::Truncate { .. } | Damage::Append { .. } | Damage::Replace { .. });
    let truncate_full = matches!(d, Damage::Truncate { len, .. } if len as usize >= s.files[d.file()].1.len());
    out.nontrivial = !changed.is_empty() && changed_named && !truncate_full;
    // CRC-consistent alterations are judged on the checks alone: with its CRC refreshed an altered table is, for the reader,
    // a well-formed table saying something else (a count of 2^58 values …), which is outside what C05/C06 claim
    let refit_plan;
    let plan = if matches!(d, Damage::Refit { .. }) {
        let mut p = s.plan.clone();
        p.indexes.clear();
        p.addrs.clear();
        p.manifest_free = false;
        refit_plan = p;
        &refit_plan
    } else {
        &s.plan
    };
    // the specimen with the very long content table is dumped on a sample of its contents: always include the content whose
    // table entry holds the first altered byte (4 bytes per content), so that what the reader makes of that entry is observed
    // half of the cases ask for the checks before anything else is read (a check must not change what later reads verify)
    let early_plan;
    let plan = if u64::from_str_radix(&out.fp[8..16], 16).unwrap_or(0) % 2 == 0 {
        let mut p = plan.clone();
        p.checks_first = true;
        early_plan = p;
        &early_plan
    } else {
        plan
    };
    let aimed_plan;
    let plan = if s.plan.addrs.len() < s.content_count && structure == "content table" && !matches!(d, Damage::Refit { .. }) {
        let mut p = plan.clone();
        if let (Some(pos), Some(sp)) = (changed.first(), view.spans.iter().find(|sp| sp.name == "content table" && changed.first().map(|c| sp.start <= *c && *c < sp.end).unwrap_or(false))) {
            let idx = ((pos - sp.start) / 4) as u32;
            for i in [idx.saturating_sub(1), idx, idx + 1] {
                if (i as usize) < s.content_count && !p.addrs.contains(&(1, i)) {
                    p.addrs.push((1, i));
                }
            }
        }
        aimed_plan = p;
        &aimed_plan
    } else {
        plan
    };
    let got = dump_container(&dir.join("c.jbk"), plan);
    out.obs.add("items_dumped", got.len() as u64);
    if std::env::var_os("JV_DEBUG_DUMP").is_some() {
        // debugging aid for replays: what the reader answered, item by item, where it is not a plain value
        for (k, v) in got.iter().filter(|(_, v)| !v.starts_with("ok:")).take(60) {
            eprintln!("DUMP {k} = {}", util::truncate(v, 200));
        }
    }
    let _class = format!("{}:{}", d.op(), structure_class(&structure));
    match oracle {
        Oracle::C06 => {
            // any panic recorded on any item is a violation (process aborts/hangs are seen by the driver)
            let mut seen = std::collections::BTreeSet::new();
            for (k, v) in &got {
                if let Some(rest) = v.strip_prefix("panic:") {
                    let mut it = rest.splitn(2, ':');
                    let site = it.next().unwrap_or("").to_string();
                    let msg = it.next().unwrap_or("").to_string();
                    if msg.contains("PoisonError") {
                        out.obs.inc("secondary_poison_panics");
                        continue;
                    }
                    let api = k.split('/').next().unwrap_or("").to_string();
                    if seen.insert((site.clone(), msg.clone())) {
                        out.violate(
                            json!({"kind": "panic", "site": site, "message": msg, "api": api, "op": d.op(), "profile": profile()}),
                            format!("C06: reading a damaged file panicked at {site}: {msg} (item {k}; specimen {}, {} in {structure})", s.name, d.op()),
                            json!({"item": k, "structure": structure}),
                        );
                    }
                }
            }
            out.obs.inc(if got.get("open").map(|v| v.starts_with("ok")).unwrap_or(false) { "opened" } else { "open_failed" });
            // damaged cluster read by several threads at once: every reader must come back (value or error);
            // a reader left waiting is caught by the case watchdog and the hang confirmation
            if structure.starts_with("cluster") {
                let path = dir.join("c.jbk");
                let addrs: Vec<(u16, u32)> = s.plan.addrs.iter().cloned().take(8).collect();
                let r = util::catch(|| {
                    if let Ok(c) = jubako::reader::Container::new(&path) {
                        let c = std::sync::Arc::new(c);
                        let barrier = std::sync::Arc::new(std::sync::Barrier::new(4));
                        std::thread::scope(|sc| {
                            for _ in 0..4 {
                                let c = c.clone();
                                let barrier = barrier.clone();
                                let addrs = addrs.clone();
                                sc.spawn(move || {
                                    barrier.wait();
                                    for (p, i) in addrs {
                                        let a = jubako::ContentAddress::new(jubako::PackId::from(p), jubako::ContentIdx::from(i));
                                        if let Ok(Some(jubako::reader::MayMissPack::FOUND(Some(region)))) = c.get_bytes(a) {
                                            let mut v = vec![];
                                            let _ = std::io::Read::read_to_end(&mut region.stream(), &mut v);
                                        }
                                    }
                                });
                            }
                        });
                    }
                });
                out.obs.inc("concurrent_reads_of_damaged_clusters");
                if let Err(p) = r {
                    if !p.in_harness() {
                        out.violate(
                            json!({"kind": "panic", "site": p.site(), "message": p.norm_msg(), "api": "concurrent-read", "op": d.op(), "profile": profile()}),
                            format!("C06: concurrent readers of a damaged cluster panicked at {}: {}", p.site(), p.msg),
                            json!({}),
                        );
                    }
                }
            }
        }
        Oracle::C05 => {
            // A damaged pack description, then the location of that very pack rewritten with the library's tool: rewriting
            // re-serialises the block with a fresh CRC, so it must refuse a block that does not verify; what the reader
            // returns afterwards is judged like any other dump (the location of that pack aside).
            let mut after_rewrite: Option<Dump> = None;
            if structure.starts_with("pack info") && fname == "c.jbk" {
                if let Some(indep::PackBody::Manifest { infos }) = view.manifest_pack().map(|p| &p.body) {
                    if let Some(info) = changed.first().and_then(|c| infos.iter().find(|i| i.at <= *c && *c < i.at + 256)) {
                        let target = dir.join("c.jbk");
                        let uuid = uuid::Uuid::from_bytes(info.uuid);
                        let r = util::catch(|| jubako::tools::set_location(&target, uuid, "relocated.jbkc".into()).map(|o| o.is_some()).map_err(|e| e.to_string()));
                        out.obs.inc(match &r {
                            Ok(Ok(true)) => "rewrite_after_damage.accepted",
                            Ok(Ok(false)) => "rewrite_after_damage.pack_not_found",
                            Ok(Err(_)) => "rewrite_after_damage.refused",
                            Err(_) => "rewrite_after_damage.panicked(C06)",
                        });
                        // (what a pack description decides: the pack list, each pack's description and free data, the checks)
                        let mut p2 = plan.clone();
                        p2.indexes.clear();
                        p2.addrs.truncate(4);
                        let mut d2 = dump_container(&target, &p2);
                        // the rewritten location itself is not compared
                        let strip = |v: &str| v.split(" loc=").next().unwrap_or("").to_string();
                        for (_, v) in d2.iter_mut() {
                            *v = strip(v);
                        }
                        after_rewrite = Some(d2);
                    }
                }
            }
            if let Some(d2) = &after_rewrite {
                for (k, v) in d2 {
                    if !v.starts_with("ok:") || k.starts_with("check/") || k.ends_with("/bytes") {
                        continue;
                    }
                    if let Some(p) = s.pristine.get(k) {
                        let p = p.split(" loc=").next().unwrap_or("").to_string();
                        if p != *v {
                            out.violate(
                                json!({"kind": "silent-difference", "item": k.split('/').next().unwrap_or(""), "structure": structure, "after_rewrite": true, "profile": profile()}),
                                format!("C05: after {} in {structure} of {fname} ({}) and a rewrite of that pack's location, item {k} silently reads {} (pristine {})", d.op(), s.name, util::truncate(v, 120), util::truncate(&p, 120)),
                                json!({"item": k}),
                            );
                            break;
                        }
                    }
                }
            }
            // structural items must be identical to the pristine ones or an error
            let mut bytes_differ = false;
            for (k, v) in &got {
                if !v.starts_with("ok:") {
                    continue;
                }
                if k.starts_with("check/") || k.starts_with("pack/") && false {
                    continue;
                }
                match s.pristine.get(k) {
                    Some(p) if p == v => {
                        out.obs.inc("items_identical");
                    }
                    Some(p) => {
                        if k.ends_with("/bytes") {
                            bytes_differ = true;
                            out.obs.inc("content_bytes_differ");
                            continue;
                        }
                        let item = k.split('/').next().unwrap_or("").to_string();
                        out.violate(
                            json!({"kind": "silent-difference", "item": item, "structure": structure, "profile": profile()}),
                            format!("C05: after {} in {structure} of {} ({}), item {k} silently reads {} (pristine {})", d.op(), fname, s.name, util::truncate(v, 120), util::truncate(p, 120)),
                            json!({"item": k}),
                        );
                        if out.viols.len() >= 3 {
                            break;
                        }
                    }
                    None => {
                        // an item that did not exist pristine (e.g. more entries): structural difference
                        if k.starts_with("index/") || k.starts_with("content/") {
                            out.violate(
                                json!({"kind": "silent-extra-item", "item": k.split('/').next().unwrap_or(""), "structure": structure, "profile": profile()}),
                                format!("C05: after {} in {structure}, the reader returns an item that was never written: {k} = {}", d.op(), util::truncate(v, 120)),
                                json!({}),
                            );
                            break;
                        }
                    }
                }
            }
            if bytes_differ {
                // then the integrity check must fail
                let chk = got.get("check/container").cloned().unwrap_or_default();
                if chk == "ok:true" {
                    out.violate(
                        json!({"kind": "bytes-differ-check-true", "structure": structure, "profile": profile()}),
                        format!("C05: content bytes differ without error after {} in {structure} and Container::check() still answers true", d.op()),
                        json!({}),
                    );
                }
            }
            if got.values().any(|v| v.starts_with("err:")) {
                out.obs.inc("cases_with_reported_errors");
            }
            if got.values().any(|v| v.starts_with("panic:")) {
                out.obs.inc("cases_with_panics(C06)");
            }
        }
        Oracle::C04 => {
            // which packs own an altered covered byte?
            let mut owners = std::collections::BTreeSet::new();
            for p in &changed {
                for sp in view.spans.iter().filter(|sp| sp.start <= *p && *p < sp.end && (sp.covered || sp.check_block) && sp.pack != usize::MAX) {
                    owners.insert(sp.pack);
                }
            }
            if owners.is_empty() {
                out.nontrivial = false;
                return out;
            }
            out.obs.inc(&format!("damaged_pack_kind.{}", owners.iter().map(|o| view.packs.get(*o).map(|p| (p.hdr.kind as char).to_string()).unwrap_or("?".into())).collect::<Vec<_>>().join("")));
            // outcomes of the three checks
            let cont = got.get("check/container").cloned();
            let filechk = got.get(&format!("check/file/{fname}")).cloned();
            for (what, res) in [("Container::check", cont), ("ContainerPack::check of the holding file", filechk)] {
                match res.as_deref() {
                    Some("ok:true") => out.violate(
                        json!({"kind": "check-true-after-damage", "check": what, "structure": structure, "op": d.op(), "profile": profile()}),
                        format!("C04: {what} answers Ok(true) although {} altered checksummed bytes in {structure} of {fname} ({})", d.op(), s.name),
                        json!({"changed": changed.iter().take(8).collect::<Vec<_>>()}),
                    ),
                    Some(v) => out.obs.inc(&format!("check_outcome.{}", v.split(':').next().unwrap_or("?"))),
                    None => out.obs.inc("check_outcome.not_reached"),
                }
            }
            // the same alteration made IN PLACE under handles that were opened, and had verified the container, before it:
            // a check asked again of a long-lived handle must notice too (content packs only: their bytes are always read
            // from the file, whereas the manifest and directory are legitimately held in memory once opened; and only bytes of the
            // hashed range, not the check block itself: an open pack keeps the expected hash it read when it was first checked)
            let in_check_block = changed.iter().any(|p| view.spans.iter().any(|sp| sp.start <= *p && *p < sp.end && sp.check_block));
            let same_len = !in_check_block && s.files[d.file()].1.len() as u64 > changed.iter().copied().max().unwrap_or(0) && !matches!(d, Damage::Truncate { .. } | Damage::Append { .. } | Damage::Replace { .. });
            let content_only = owners.iter().all(|o| view.packs.get(*o).map(|p| p.hdr.kind == b'c').unwrap_or(false));
            if same_len && content_only && u64::from_str_radix(&out.fp[..8], 16).unwrap_or(0) % 3 == 0 {
                let live = scratch.path("live");
                std::fs::create_dir_all(&live).unwrap();
                for (name, bytes, _) in &s.files {
                    std::fs::write(live.join(name), bytes).unwrap();
                }
                let mut damaged = s.files[d.file()].1.clone();
                let _ = d.apply(&mut damaged);
                let ids: Vec<u16> = s.plan.pack_ids.iter().copied().filter(|i| *i != 0).collect();
                let r = util::catch(|| -> Option<Vec<(String, String)>> {
                    use jubako::reader::MayMissPack;
                    use jubako::Pack as _;
                    let cont = jubako::reader::Container::new(live.join("c.jbk")).ok()?;
                    let file = jubako::tools::open_pack(live.join(fname)).ok()?;
                    // first round on the intact files: everything verifies (otherwise the pristine clause reports it)
                    if !matches!(cont.check(), Ok(true)) || !matches!(file.check(), Ok(true)) {
                        return None;
                    }
                    for id in &ids {
                        if let Ok(Some(MayMissPack::FOUND(p))) = cont.get_pack(jubako::PackId::from(*id)) {
                            if !matches!(p.check(), Ok(true)) {
                                return None;
                            }
                        }
                    }
                    // alter the bytes in place (same inode, same length)
                    {
                        use std::io::{Seek, SeekFrom, Write};
                        let mut f = std::fs::OpenOptions::new().write(true).open(live.join(fname)).ok()?;
                        for p in &changed {
                            f.seek(SeekFrom::Start(*p)).ok()?;
                            f.write_all(&damaged[*p as usize..*p as usize + 1]).ok()?;
                        }
                        f.sync_all().ok()?;
                    }
                    let show = |r: jubako::Result<bool>| match r {
                        Ok(v) => format!("ok:{v}"),
                        Err(e) => format!("err:{e}"),
                    };
                    let mut res = vec![("Container::check on the handle opened before".to_string(), show(cont.check())), ("ContainerPack::check on the handle opened before".to_string(), show(file.check()))];
                    for o in &owners {
                        let uuid = view.packs.get(*o).map(|p| p.hdr.uuid).unwrap_or_default();
                        for id in &ids {
                            if let Ok(Some(MayMissPack::FOUND(p))) = cont.get_pack(jubako::PackId::from(*id)) {
                                if *p.uuid().as_bytes() == uuid {
                                    res.push((format!("ContentPack::check of pack {id} on the handle opened (and checked) before"), show(p.check())));
                                }
                            }
                        }
                    }
                    Some(res)
                });
                match r {
                    Ok(Some(res)) => {
                        out.obs.inc("in_place_alterations_under_open_handles");
                        for (what, v) in res {
                            if v == "ok:true" {
                                out.violate(
                                    json!({"kind": "check-true-after-damage", "check": what.split(' ').next().unwrap_or(""), "live": true, "structure": structure, "op": d.op(), "profile": profile()}),
                                    format!("C04: {what} answers Ok(true) although {} altered checksummed bytes in {structure} of {fname} ({}) after the first check", d.op(), s.name),
                                    json!({"changed": changed.iter().take(8).collect::<Vec<_>>()}),
                                );
                            }
                        }
                    }
                    Ok(None) => out.obs.inc("in_place_alterations_skipped"),
                    Err(_) => out.obs.inc("in_place_alterations_panicked(C06)"),
                }
            }
            // the same question through the command line tool (`jbk check <damaged file>`)
            match crate::cli::check(&dir.join(fname)) {
                Some(v) if v == "ok:true" => out.violate(
                    json!({"kind": "check-true-after-damage", "check": "jbk check", "structure": structure, "op": d.op(), "profile": profile()}),
                    format!("C04: `jbk check` says the pack is ok although {} altered checksummed bytes in {structure} of {fname} ({})", d.op(), s.name),
                    json!({"changed": changed.iter().take(8).collect::<Vec<_>>()}),
                ),
                Some(v) => out.obs.inc(&format!("command_line_check_outcome.{}", v.split(':').next().unwrap_or("?"))),
                None => out.obs.inc("command_line_tool_unavailable"),
            }
            // the damaged pack's own check, when the pack can still be reached
            for o in &owners {
                let kind = view.packs.get(*o).map(|p| p.hdr.kind).unwrap_or(0);
                let uuid = view.packs.get(*o).map(|p| p.hdr.uuid).unwrap_or_default();
                // pack id of the damaged content pack, from the manifest of the specimen (identity is the uuid)
                let mut pack_id = None;
                for (_, _, v) in &s.files {
                    if let Some(indep::PackBody::Manifest { infos }) = v.manifest_pack().map(|p| &p.body) {
                        pack_id = pack_id.or(infos.iter().find(|i| i.uuid == uuid).map(|i| i.id));
                    }
                }
                let key = match (kind, pack_id) {
                    (b'd', _) => Some("check/directory_pack".to_string()),
                    (b'c', Some(id)) => Some(format!("check/pack/{id}")),
                    _ => None,
                };
                if let Some(k) = key {
                    if got.get(&k).map(|v| v == "ok:true").unwrap_or(false) {
                        out.violate(
                            json!({"kind": "pack-check-true-after-damage", "pack_kind": (kind as char).to_string(), "structure": structure, "profile": profile()}),
                            format!("C04: the damaged pack's own check() ({k}) answers Ok(true) after {} in {structure}", d.op()),
                            json!({}),
                        );
                    }
                }
            }
        }
    }
    out
}

/// C04's pristine clause: every created container verifies (all packagings/compressions of the specimens).
pub fn pristine_checks(specs: &[Specimen], out: &mut CaseOut) {
    for s in specs {
        for (k, v) in &s.pristine {
            if k.starts_with("check/") {
                out.obs.inc("pristine_checks");
                if v != "ok:true" {
                    out.violate(json!({"kind": "pristine-check", "check": k, "profile": profile()}), format!("C04: freshly created specimen {}: {k} = {v}", s.name), json!({}));
                }
            }
        }
    }
}
