//! C12 — rewriting a pack location changes only that location; the manifest stays valid.

use crate::c01::Pkg;
use crate::cont::*;
use crate::dump::*;
use crate::indep::{self, PackBody};
use crate::proto::*;
use crate::rng::{Fp, Rng};
use crate::util::{self, Scratch};
use jubako as jbk;
use serde_json::{json, Value};
use std::collections::BTreeMap;
use std::path::PathBuf;
use std::sync::Arc;

pub fn count(tier: Tier) -> u64 {
    tier.pick(300, 12000)
}

pub fn gen(seed: u64, tier: Tier, k: u64) -> Value {
    let mut rng = Rng::keyed(seed, "C12", k);
    if (tier == Tier::Quick && k == 2) || (tier == Tier::Thorough && k % 400 == 2) {
        // a manifest listing 256 packs or more (the masked part of every pack description takes part in the manifest's checksum)
        let mut case = gen_small(&mut rng, tier, Pkg::NoConcat, 0, 3);
        for _ in 1..*rng.pick(&[256usize, 257, 300]) {
            let items = vec![crate::content::Item { len: rng.range(1, 30) as usize, ent: crate::content::Ent::High, hint: crate::content::Hint::No, src: crate::content::Src::Mem, dup_of: None, cat_of: None }];
            case.extra.push(crate::content::ContentCase { seed: rng.next(), comp: crate::content::Comp::None, cached: false, items });
        }
        return json!({"case": case.to_json(), "layout": "as-created", "steps": 14, "h_seed": rng.next(), "via_cli": false, "many": true});
    }
    if k % 11 == 4 {
        // a small container written with the low-level creators: content packs declared in reverse id order, the directory pack
        // declared first or second (every pack of such a manifest gets rewritten by a history of a few steps)
        let n_extra = rng.range(1, 3) as usize;
        let mut case = gen_small(&mut rng, tier, Pkg::NoConcat, n_extra, 3);
        if k % 33 == 4 {
            // free data everywhere, one pack with 70 000 bytes of it: the pack descriptions start beyond the first 64 KiB of the manifest
            case.dir.free = (rng.next() & !7) | 1;
        }
        return json!({"case": case.to_json(), "layout": "as-created", "steps": rng.range(6, 20), "h_seed": rng.next(), "via_cli": k % 22 == 4, "many": true});
    }
    let pkg = [Pkg::NoConcat, Pkg::OneFile, Pkg::TwoFiles][(k % 3) as usize];
    let n_extra = if k % 5 == 0 { rng.range(1, 2) as usize } else { 0 };
    let mut case = gen_small(&mut rng, tier, pkg, n_extra, 4);
    // extra packs with ids beyond one byte in half of the cases that have extras (the pack id is part of what a rewrite re-serialises)
    if n_extra > 0 && k % 10 == 0 {
        case.id_gap = *rng.pick(&[254u16, 300, 1000]);
    }
    // where the manifest lives: as created, or re-assembled by concat in a random order (manifest at another offset)
    let layout = if pkg != Pkg::OneFile && k % 2 == 1 { "concat" } else { "as-created" };
    // every fourth history is driven through the command line tool (`jbk locate <file> <uuid> <location>`)
    json!({"case": case.to_json(), "layout": layout, "steps": rng.range(1, tier.pick(12, 30)), "h_seed": rng.next(), "via_cli": k % 4 == 3})
}

/// A location derived from the current one: textually different but equivalent as a path, or the name of an existing file.
fn gen_related_location(rng: &mut Rng, current: &str, existing: &[String]) -> Option<String> {
    let s = match rng.below(6) {
        0 if current.contains('/') => current.replacen('/', "//", 1),
        1 if current.contains('/') => current.replacen('/', "/./", 1),
        2 if !current.is_empty() && !current.ends_with('/') => format!("{current}/"),
        3 if !current.is_empty() => format!("./{current}"),
        4 | 5 if !existing.is_empty() => rng.pick(existing).clone(),
        _ => return None,
    };
    if s.len() <= 213 {
        Some(s)
    } else {
        None
    }
}

fn gen_location(rng: &mut Rng) -> String {
    let target = match rng.below(8) {
        0 => 0,
        1 => 1,
        2 => 213,
        3 => 212,
        4 => rng.range(205, 213) as usize,
        _ => rng.range(2, 60) as usize,
    };
    let alphabet: Vec<char> = match rng.below(3) {
        0 => "abcdefghij/._-0123456789".chars().collect(),
        1 => "aé€😀/".chars().collect(),
        _ => "日本語パック/é".chars().collect(),
    };
    let mut s = String::new();
    loop {
        let c = *rng.pick(&alphabet);
        if s.len() + c.len_utf8() > target {
            break;
        }
        s.push(c);
    }
    // pad with ascii to reach the byte target exactly when possible
    while s.len() < target {
        s.push('x');
    }
    // a location is an opaque string: one in eight looks like a URL or a drive path (what is written is what must be read back)
    if rng.chance(1, 8) {
        let pre = *rng.pick(&["file:", "file://", "http://host/", "C:\\dir\\", "./", "//", " "]);
        if pre.len() <= s.len() && s.is_char_boundary(pre.len()) {
            s.replace_range(..pre.len(), pre);
        } else if s.len() + pre.len() <= 213 {
            s.insert_str(0, pre);
        }
    }
    s
}

pub fn run(desc: &Value, ctx: &Ctx) -> CaseOut {
    let mut out = CaseOut::new();
    let case = ContCase::from_json(desc.get("case").unwrap());
    let layout = jstr(desc, "layout").to_string();
    let steps = ju64(desc, "steps");
    let via_cli = jbool(desc, "via_cli");
    let mut rng = Rng::new(ju64(desc, "h_seed"));
    let scratch = Scratch::new(&ctx.work, "c12");
    let mut fp = Fp::new();
    fp.s(case.pkg.as_str()).s(&layout).u(steps).u(case.extra.len() as u64).u(ju64(desc, "h_seed") & 0xff);
    out.fp = fp.hex();
    out.obs.inc(&format!("layout.{}.{}", case.pkg.as_str(), layout));
    let r = util::catch(|| {
        let dir = scratch.path("c");
        std::fs::create_dir_all(&dir).unwrap();
        let made = if jbool(desc, "many") {
            out.obs.max("packs_listed_in_one_manifest", 2 + case.extra.len() as u64);
            create_loose(&case, &dir, &|_, f| f.to_string(), None)
        } else {
            create_container(&case, &dir, "c.jbk", Arc::new(()))
        };
        let created = match made {
            Ok(c) => c,
            Err(e) => return out.inconclusive(format!("creation failed: {e}")),
        };
        // file holding the manifest
        let mut target: PathBuf = created.path.clone();
        if layout == "concat" {
            let mut main: Vec<PathBuf> = created.files.iter().filter(|f| !f.file_name().unwrap().to_string_lossy().starts_with("extra")).cloned().collect();
            rng.shuffle(&mut main);
            let outp = camino::Utf8PathBuf::from_path_buf(dir.join("all.jbk")).unwrap();
            if let Err(e) = jbk::tools::concat(&main, &outp) {
                return out.inconclusive(format!("concat failed (C10's concern): {e}"));
            }
            target = outp.into_std_path_buf();
        }
        let plan = {
            let mut p = plan_for(&case, Some(&created));
            p.checks = true;
            p
        };
        let read_manifest = |bytes: &[u8]| -> Option<(indep::FileView, Vec<indep::PackInfoRec>)> {
            let v = indep::decode_file(bytes);
            let infos = match v.manifest_pack().map(|p| &p.body) {
                Some(PackBody::Manifest { infos }) => infos.clone(),
                _ => return None,
            };
            Some((v, infos))
        };
        // a handle on the file opened BEFORE the history and kept for all of it: what it reads after each rewrite is the file as
        // it then is (the library reads the manifest from the file each time one is built from this handle)
        let kept = jbk::tools::open_pack(&target).ok();
        let mut bytes = std::fs::read(&target).unwrap();
        let (view0, infos0) = match read_manifest(&bytes) {
            Some(x) => x,
            None => return out.inconclusive("decoder found no manifest in the target file"),
        };
        // The decoder disagreeing with the freshly created file is C14's subject; the history is still run, judged by the
        // library's own view (the manifest opens, check() is true, locations read back) and by the byte-level diff.
        let decoder_agrees = view0.problems.is_empty();
        if !decoder_agrees {
            out.obs.inc("histories_on_files_the_decoder_already_disputes(C14)");
        }
        out.obs.set("manifest_offsets", format!("{}", view0.manifest_pack().map(|p| p.origin).unwrap_or(0)));
        let pristine = dump_container(&target, &plan);
        // sequential model: uuid -> location
        let mut model: BTreeMap<[u8; 16], String> = infos0.iter().map(|i| (i.uuid, i.location.clone())).collect();
        let mut effective = 0u64;
        for step in 0..steps {
            let unknown = rng.chance(1, 8);
            let (uuid, info) = if unknown {
                let mut u = [0u8; 16];
                u.copy_from_slice(&rng.bytes(16));
                (u, None)
            } else {
                let i = rng.pick(&infos0).clone();
                (i.uuid, Some(i))
            };
            let existing: Vec<String> = list_files(&dir).iter().map(|f| f.file_name().unwrap().to_string_lossy().into_owned()).collect();
            let current = info.as_ref().map(|i| model[&i.uuid].clone()).unwrap_or_default();
            let newloc = match if rng.chance(1, 3) { gen_related_location(&mut rng, &current, &existing) } else { None } {
                Some(l) => {
                    out.obs.inc("related_locations(path-equivalent or existing file)");
                    l
                }
                None => gen_location(&mut rng),
            };
            out.obs.set("location_lengths", format!("{}", newloc.len()));
            let mut cli_res = None;
            if via_cli {
                match crate::cli::set_location(&target, &uuid::Uuid::from_bytes(uuid), &newloc) {
                    None => out.obs.inc("command_line_tool_unavailable"),
                    Some(crate::cli::SetLoc::Changed { old }) => cli_res = Some(Ok(Some(old))),
                    Some(crate::cli::SetLoc::NotInManifest) => cli_res = Some(Ok(None)),
                    Some(crate::cli::SetLoc::Error(e)) => cli_res = Some(Err(e)),
                    Some(crate::cli::SetLoc::Panic(m)) => {
                        out.violate(json!({"kind": "panic", "api": "jbk locate", "layout": layout, "message": util::normalize_msg(&m), "profile": profile()}), format!("C12: step {step}: `jbk locate` panicked: {m}"), json!({}));
                        return;
                    }
                    Some(crate::cli::SetLoc::Other(m)) => {
                        out.violate(json!({"kind": "cli-report", "layout": layout, "profile": profile()}), format!("C12: step {step}: `jbk locate` with a new location of {} bytes: {m}", newloc.len()), json!({}));
                        return;
                    }
                }
            }
            // (kind is not compared; the old location is)
            let res: Result<Option<String>, String> = match cli_res {
                Some(r) => {
                    out.obs.inc("rewrites_by_command_line");
                    r
                }
                None => match util::catch(|| jbk::tools::set_location(&target, uuid::Uuid::from_bytes(uuid), newloc.as_str().into())) {
                    Err(p) => {
                        out.violate_panic("C12", "set_location", &layout, &p);
                        return;
                    }
                    Ok(r) => r.map(|o| o.map(|(_k, old)| old.as_str().to_string())).map_err(|e| e.to_string()),
                },
            };
            let after = std::fs::read(&target).unwrap();
            out.obs.inc("rewrites");
            let fail = |out: &mut CaseOut, kind: &str, what: String| {
                out.violate(json!({"kind": kind, "layout": layout, "known_uuid": !unknown, "profile": profile()}), format!("C12: step {step} ({} location of {} bytes): {what}", if unknown { "unknown uuid," } else { "listed pack," }, newloc.len()), json!({}));
            };
            match (&info, res) {
                (None, Ok(None)) => {
                    if after != bytes {
                        fail(&mut out, "unknown-uuid-changed-bytes", "naming a pack that is not in the manifest changed the file".into());
                        return;
                    }
                }
                (None, other) => {
                    fail(&mut out, "unknown-uuid-result", format!("expected Ok(None), got {}", match other { Ok(Some(_)) => "Ok(Some(..))".to_string(), Err(e) => format!("Err({e})"), _ => String::new() }));
                    return;
                }
                (Some(_), Err(e)) => {
                    fail(&mut out, "set-location-error", format!("set_location failed: {e}"));
                    return;
                }
                (Some(_), Ok(None)) => {
                    fail(&mut out, "set-location-none", "set_location answered None for a listed pack".into());
                    return;
                }
                (Some(i), Ok(Some(old))) => {
                    effective += 1;
                    let want_old = model[&i.uuid].clone();
                    if old.as_str() != want_old {
                        fail(&mut out, "old-location", format!("returned old location {:?}, the model says {:?}", old.as_str(), want_old));
                        return;
                    }
                    model.insert(i.uuid, newloc.clone());
                    // byte-level diff: only [38,256) of that pack info may change, length unchanged
                    if after.len() != bytes.len() {
                        fail(&mut out, "file-length", format!("file length changed {} -> {}", bytes.len(), after.len()));
                        return;
                    }
                    let lo = i.at as usize + 38;
                    let hi = i.at as usize + 256;
                    if let Some(p) = (0..after.len()).find(|p| after[*p] != bytes[*p] && !(lo..hi).contains(p)) {
                        fail(&mut out, "bytes-outside-location", format!("byte {p} changed; only [{lo},{hi}) belongs to the rewritten location"));
                        return;
                    }
                }
            }
            bytes = after;
            // the manifest must still decode without any rule broken (CRCs, masked blake3) and list the model's locations
            match read_manifest(&bytes) {
                None => {
                    fail(&mut out, "manifest-undecodable", "the manifest cannot be decoded any more".into());
                    return;
                }
                Some((v, infos)) => {
                    if let (Some(p), true) = (v.problems.first(), decoder_agrees) {
                        fail(&mut out, "layout-rule", format!("independent decoder: {p}"));
                        return;
                    }
                    for (a, b) in infos.iter().zip(infos0.iter()) {
                        if a.location != model[&a.uuid] {
                            fail(&mut out, "location-readback", format!("pack {} location reads {:?}, expected {:?}", uuid::Uuid::from_bytes(a.uuid), a.location, model[&a.uuid]));
                            return;
                        }
                        if (a.uuid, a.size, a.id, a.kind, a.group, a.free_data_id, a.check_pos, a.check_size) != (b.uuid, b.size, b.id, b.kind, b.group, b.free_data_id, b.check_pos, b.check_size) {
                            fail(&mut out, "other-description-changed", format!("description of pack {} changed", uuid::Uuid::from_bytes(a.uuid)));
                            return;
                        }
                    }
                }
            }
            // through the library: the manifest opens, verifies, and shows the new locations
            let lib = util::catch(|| -> Result<(), String> {
                let cp = jbk::tools::open_pack(&target).map_err(|e| format!("open_pack: {e}"))?;
                let mr = cp.get_manifest_pack_reader().map_err(|e| e.to_string())?.ok_or("no manifest reader")?;
                let m = jbk::reader::ManifestPack::new(mr).map_err(|e| format!("ManifestPack::new: {e}"))?;
                use jbk::Pack as _;
                if !m.check().map_err(|e| format!("check: {e}"))? {
                    return Err("manifest check() is false".into());
                }
                let mut all = vec![m.get_directory_pack_info().clone()];
                all.extend(m.get_pack_infos().iter().cloned());
                for pi in all {
                    let want = &model[pi.uuid.as_bytes()];
                    if pi.pack_location.as_str() != want {
                        return Err(format!("library reads location {:?} for {}, expected {:?}", pi.pack_location.as_str(), pi.uuid, want));
                    }
                }
                Ok(())
            });
            if via_cli {
                if let Some(i) = &info {
                    match crate::cli::declared_location(&target, &uuid::Uuid::from_bytes(i.uuid)) {
                        Some(l) if l == model[&i.uuid] => out.obs.inc("command_line_readbacks"),
                        Some(l) => {
                            fail(&mut out, "cli-readback", format!("`jbk locate` prints declared location {l:?}, expected {:?}", model[&i.uuid]));
                            return;
                        }
                        None => out.obs.inc("command_line_readback_not_parsed_or_unavailable"),
                    }
                }
            }
            if let Some(cp) = &kept {
                let r = util::catch(|| -> Result<(), String> {
                    let mr = cp.get_manifest_pack_reader().map_err(|e| e.to_string())?.ok_or("no manifest reader")?;
                    let m = jbk::reader::ManifestPack::new(mr).map_err(|e| format!("ManifestPack::new: {e}"))?;
                    let mut all = vec![m.get_directory_pack_info().clone()];
                    all.extend(m.get_pack_infos().iter().cloned());
                    for pi in all {
                        let want = &model[pi.uuid.as_bytes()];
                        if pi.pack_location.as_str() != want {
                            return Err(format!("a handle opened before the history reads location {:?} for {}, the file now holds {:?}", pi.pack_location.as_str(), pi.uuid, want));
                        }
                    }
                    Ok(())
                });
                match r {
                    Ok(Ok(())) => out.obs.inc("readbacks_through_a_handle_opened_before"),
                    Ok(Err(e)) => {
                        fail(&mut out, "kept-handle-readback", e);
                        return;
                    }
                    Err(p) => {
                        out.violate_panic("C12", "kept-handle-readback", &layout, &p);
                        return;
                    }
                }
            }
            match lib {
                Ok(Ok(())) => out.obs.inc("library_readbacks"),
                Ok(Err(e)) => {
                    fail(&mut out, "library-readback", e);
                    return;
                }
                Err(p) => {
                    out.violate_panic("C12", "readback", &layout, &p);
                    return;
                }
            }
        }
        // content is unchanged for packs found inside the file at hand (locations are only hints there)
        if case.pkg == Pkg::OneFile || layout == "concat" {
            let mut plan_in = plan.clone();
            // extras were located through their location, which the history may have rewritten: leave them out
            plan_in.addrs.retain(|(p, _)| *p == 1);
            plan_in.pack_ids.retain(|p| *p <= 1);
            let got = dump_container(&target, &plan_in);
            let diffs = diff(&pristine, &got, |k| got.contains_key(k) || k.starts_with("index/") || k.starts_with("content/1/"));
            let diffs: Vec<_> = diffs.into_iter().filter(|d| !d.starts_with("content/2") && !d.starts_with("content/3") && !d.starts_with("content/4") && !d.starts_with("check/pack/2") && !d.starts_with("check/pack/3") && !d.starts_with("pack/") && !d.starts_with("check/file")).collect();
            if !diffs.is_empty() {
                out.violate(json!({"kind": "content-changed", "layout": layout, "profile": profile()}), format!("C12: after the history {} item(s) of the container differ; first: {}", diffs.len(), diffs[0]), json!({"diffs": diffs.iter().take(5).collect::<Vec<_>>()}));
            }
        }
        out.obs.add("effective_rewrites", effective);
        out.nontrivial = effective >= 1;
    });
    if let Err(p) = r {
        if p.in_harness() {
            out.inconclusive(format!("harness panic {}:{} {}", p.file, p.line, p.msg));
        } else {
            out.violate_panic("C12", "history", &layout, &p);
        }
    }
    out
}
