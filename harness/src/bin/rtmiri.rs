//! Round trips small enough for Miri: (1) an in-memory directory pack (rayon sort, value stores, entry store:
//! reaches the `set_len` site of the value-store reader), (2) an uncompressed content pack written to a real file
//! and read back from memory (reaches the `set_len` site of the cluster reader) with the C13 view operations.
//! usage: rtmiri <seed>
use jbkverif::c01::{self, Pkg};
use jbkverif::c02::{open_dir_mem, verify_dir, VerifyOpts};
use jbkverif::content::*;
use jbkverif::dirs::*;
use jbkverif::proto::*;
use jbkverif::util::Scratch;
use std::sync::Arc;

fn main() {
    let seed: u64 = std::env::args().nth(1).and_then(|s| s.parse().ok()).unwrap_or(1);
    let mut out = CaseOut::new();
    // (1) directory
    let st = StoreDef {
        n: 24,
        common: vec![
            PDef { name: "k".into(), kind: PKind::Array { prefix: 2, store: 0 }, col: Col::Arr { max: 6, alpha: 4 } },
            PDef { name: "u".into(), kind: PKind::UInt, col: Col::Width(3) },
            PDef { name: "s".into(), kind: PKind::SInt, col: Col::Width(2) },
            PDef { name: "t".into(), kind: PKind::Array { prefix: 0, store: 1 }, col: Col::Arr { max: 9, alpha: 0 } },
            PDef { name: "r".into(), kind: PKind::RefTo, col: Col::RefPat(RefPat::Perm) },
        ],
        variants: vec![
            VariantDef { name: "A".into(), props: vec![PDef { name: "a".into(), kind: PKind::Content, col: Col::Content { packs: 2, maxid: 300 } }] },
            VariantDef { name: "B".into(), props: vec![PDef { name: "b".into(), kind: PKind::UInt, col: Col::Const }] },
        ],
        sort: Some(vec!["k".into()]),
        unique_keys: true,
    };
    let dc = DirCase { seed, vstores: vec![false, true], stores: vec![st], indexes: vec![IndexDef { name: "all".into(), store: 0, offset: 0, count: 24 }, IndexDef { name: "win".into(), store: 0, offset: 5, count: 9 }], defer: 1, free: 0 };
    let (inst, bytes) = create_mem(&dc).expect("create directory");
    let pack = open_dir_mem(bytes).expect("open directory");
    verify_dir(&dc, &inst, &pack, &mut out, &VerifyOpts { prop: "C02", handles: true });
    // (2) raw content pack
    let items = vec![
        Item { len: 10, ent: Ent::High, hint: Hint::No, src: Src::Mem, dup_of: None, cat_of: None },
        Item { len: 300, ent: Ent::Low4, hint: Hint::Detect, src: Src::Mem, dup_of: None, cat_of: None },
        Item { len: 0, ent: Ent::High, hint: Hint::Yes, src: Src::Mem, dup_of: None, cat_of: None },
        Item { len: 4100, ent: Ent::Mid6, hint: Hint::Yes, src: Src::Mem, dup_of: None, cat_of: None },
    ];
    let cc = ContentCase { seed, comp: Comp::None, cached: false, items };
    let base = std::env::temp_dir();
    let scratch = Scratch::new(&base, "rtmiri");
    let created = c01::create(&cc, Pkg::Bare, &scratch.dir, Arc::new(())).expect("create content pack");
    let file_bytes = std::fs::read(&created.path).expect("read pack file");
    let reader: jubako::Reader = file_bytes.into();
    let cp = jubako::reader::ContentPack::new(reader).expect("open content pack");
    for (i, a) in created.addrs.iter().enumerate() {
        let region = cp.get_content(a.content_id).expect("get_content").expect("present");
        let exp = cc.bytes_of(i);
        jbkverif::c13::check_views(&region, &exp, seed ^ i as u64, 40, &mut out);
    }
    if out.verdict == Verdict::Violated {
        for v in &out.viols {
            eprintln!("RTMIRI-VIOLATION {}", v.what);
        }
        std::process::exit(1);
    }
    println!("RTMIRI-OK seed={seed} values_compared={} views={}", out.obs.n.get("values_compared").cloned().unwrap_or(0), out.obs.n.get("views.stream").cloned().unwrap_or(0));
}
