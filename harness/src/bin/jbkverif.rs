use jbkverif::proto::*;
use jbkverif::*;
use serde_json::{json, Value};
use std::path::PathBuf;

struct Args {
    pos: Vec<String>,
    kv: std::collections::HashMap<String, String>,
}

fn parse_args() -> Args {
    let mut pos = vec![];
    let mut kv = std::collections::HashMap::new();
    let mut it = std::env::args().skip(1);
    while let Some(a) = it.next() {
        if let Some(k) = a.strip_prefix("--") {
            let v = it.next().unwrap_or_default();
            kv.insert(k.to_string(), v);
        } else {
            pos.push(a);
        }
    }
    Args { pos, kv }
}

impl Args {
    fn u64(&self, k: &str, d: u64) -> u64 {
        self.kv.get(k).and_then(|v| v.parse().ok()).unwrap_or(d)
    }
    fn s(&self, k: &str, d: &str) -> String {
        self.kv.get(k).cloned().unwrap_or_else(|| d.to_string())
    }
}

type GenFn = fn(u64, Tier, u64) -> Value;
type RunFn = fn(&Value, &Ctx) -> CaseOut;
type CountFn = fn(Tier) -> u64;

fn table(prop: &str) -> Option<(CountFn, GenFn, RunFn)> {
    Some(match prop {
        "C01" => (c01::count, c01::gen, c01::run),
        "C04P" => (c04p::count, c04p::gen, c04p::run),
        "C02" => (c02::count, c02::gen, c02::run),
        "C03" => (c03::count, c03::gen, c03::run),
        #[cfg(jubako_verif)]
        "C07" => (c07::count, c07::gen, c07::run),
        "C08" => (c08::count, c08::gen, c08::run),
        "C10" => (c10::count, c10::gen, c10::run),
        "C11" => (c11::count, c11::gen, c11::run),
        "C12" => (c12::count, c12::gen, c12::run),
        "C13" => (c13::count, c13::gen, c13::run),
        "C14" => (c14::count, c14::gen, c14::run),
        "C14B" => (c14::count_b, c14::gen_b, c14::run_b),
        "C15" => (c15::count, c15::gen, c15::run),
        "C16" => (c16::count, c16::gen, c16::run),
        _ => return None,
    })
}

fn lab_oracle(prop: &str) -> Option<lab::Oracle> {
    match prop {
        "C04" => Some(lab::Oracle::C04),
        "C05" => Some(lab::Oracle::C05),
        "C06" => Some(lab::Oracle::C06),
        _ => None,
    }
}

/// C04's pristine clause on a broad set of generated containers.
mod c04p {
    use jbkverif::proto::*;
    use jbkverif::*;
    use serde_json::{json, Value};
    pub fn count(tier: Tier) -> u64 {
        tier.pick(60, 900)
    }
    pub fn gen(seed: u64, tier: Tier, k: u64) -> Value {
        if k == 0 {
            return json!({"specimens": true, "seed": seed});
        }
        let mut rng = rng::Rng::keyed(seed, "C04P", k);
        if k == 1 || (tier == Tier::Thorough && k % 300 == 1) {
            // a manifest of more than 255 packs (the manifest checksum masks part of every pack info: counts beyond one byte)
            let mut case = cont::gen_small(&mut rng, tier, c01::Pkg::OneFile, 0, 3);
            for _ in 1..*rng.pick(&[256usize, 257, 300]) {
                let items = vec![content::Item { len: rng.range(1, 40) as usize, ent: content::Ent::High, hint: content::Hint::No, src: content::Src::Mem, dup_of: None, cat_of: None }];
                case.extra.push(content::ContentCase { seed: rng.next(), comp: content::Comp::None, cached: false, items });
            }
            let mut v = case.to_json();
            v["many"] = json!(true);
            return v;
        }
        let pkg = [c01::Pkg::OneFile, c01::Pkg::TwoFiles, c01::Pkg::NoConcat][(k % 3) as usize];
        cont::gen_small(&mut rng, tier, pkg, (k % 4 == 3) as usize, 8).to_json()
    }
    pub fn run(desc: &Value, ctx: &Ctx) -> CaseOut {
        let mut out = CaseOut::new();
        if jbool(desc, "specimens") {
            // the damage lab's own specimens (incl. the loose/concat one and the one with a missing pack) verify pristine
            let specs = lab::specimens(ju64(desc, "seed"), &ctx.work);
            lab::pristine_checks(specs, &mut out);
            out.nontrivial = true;
            out.fp = "lab-specimens".into();
            out.obs.add("lab_specimens", specs.len() as u64);
            return out;
        }
        let case = cont::ContCase::from_json(desc);
        let scratch = util::Scratch::new(&ctx.work, "c04p");
        let mut fp = rng::Fp::new();
        fp.s(case.pkg.as_str()).s(case.content.comp.name()).u(case.content.items.len() as u64).u(case.extra.len() as u64);
        out.fp = fp.hex();
        out.nontrivial = true;
        out.obs.inc(&format!("pristine.pkg.{}", case.pkg.as_str()));
        out.obs.inc(&format!("pristine.comp.{}", case.content.comp.name()));
        let many = jbool(desc, "many");
        if many {
            out.obs.max("packs_in_one_pristine_container", 2 + case.extra.len() as u64);
        }
        let made = util::catch(|| {
            if many {
                // loose files first would leave hundreds of files to check one by one: joined into one file
                cont::create_loose(&case, &scratch.dir, &|_, f| f.to_string(), Some("c.jbk"))
            } else {
                cont::create_container(&case, &scratch.dir, "c.jbk", std::sync::Arc::new(()))
            }
        });
        match made {
            Ok(Ok(created)) => {
                let mut plan = dump::plan_for(&case, Some(&created));
                plan.indexes.clear();
                plan.addrs.clear();
                let d = dump::dump_container(&created.path, &plan);
                for (k, v) in &d {
                    if k.starts_with("check/") {
                        out.obs.inc("pristine_checks");
                        if v != "ok:true" {
                            out.violate(json!({"kind": "pristine-check", "check": k.split('/').take(2).collect::<Vec<_>>().join("/"), "profile": profile()}), format!("C04: a freshly created container ({}, {}) does not verify: {k} = {v}", case.pkg.as_str(), case.content.comp.name()), json!({}));
                        }
                    }
                }
                // the same asked by four threads at once of ONE opened container and of ONE opened file (shared sources)
                let path = created.path.clone();
                let conc = util::catch(|| -> Vec<String> {
                    let mut answers = vec![];
                    let barrier = std::sync::Arc::new(std::sync::Barrier::new(4));
                    if let Ok(c) = jubako::reader::Container::new(&path) {
                        let c = std::sync::Arc::new(c);
                        let hs: Vec<_> = (0..4)
                            .map(|_| {
                                let (c, b) = (c.clone(), barrier.clone());
                                std::thread::spawn(move || {
                                    b.wait();
                                    format!("Container::check {:?}", c.check().map_err(|e| e.to_string()))
                                })
                            })
                            .collect();
                        answers.extend(hs.into_iter().map(|h| h.join().unwrap_or_else(|_| "Container::check panicked".into())));
                    }
                    if let Ok(p) = jubako::tools::open_pack(&path) {
                        let p = std::sync::Arc::new(p);
                        let hs: Vec<_> = (0..4)
                            .map(|_| {
                                let (p, b) = (p.clone(), barrier.clone());
                                std::thread::spawn(move || {
                                    b.wait();
                                    format!("ContainerPack::check {:?}", p.check().map_err(|e| e.to_string()))
                                })
                            })
                            .collect();
                        answers.extend(hs.into_iter().map(|h| h.join().unwrap_or_else(|_| "ContainerPack::check panicked".into())));
                    }
                    answers
                });
                match conc {
                    Ok(answers) => {
                        for a in answers {
                            out.obs.inc("pristine_checks_concurrent");
                            if !a.ends_with("Ok(true)") {
                                out.violate(json!({"kind": "pristine-check", "check": "concurrent", "profile": profile()}), format!("C04: four threads checking one freshly created, shared container ({}, {}): {a}", case.pkg.as_str(), case.content.comp.name()), json!({}));
                                break;
                            }
                        }
                    }
                    Err(p) => out.violate_panic("C04", "concurrent-check", case.pkg.as_str(), &p),
                }
                // a container of hundreds of packs: one byte of the LAST pack's data altered must make the checks fail too
                if many {
                    if let Ok(mut bytes) = std::fs::read(&created.path) {
                        let view = indep::decode_file(&bytes);
                        let last_content = view.packs.iter().enumerate().filter(|(_, p)| p.hdr.kind == b'c').map(|(i, _)| i).last();
                        if let Some(sp) = last_content.and_then(|pi| view.spans.iter().find(|s| s.pack == pi && s.name.starts_with("cluster data") && s.end > s.start)) {
                            bytes[sp.start as usize] ^= 0x20;
                            let dir2 = scratch.path("many-damaged");
                            std::fs::create_dir_all(&dir2).unwrap();
                            let f2 = dir2.join("c.jbk");
                            std::fs::write(&f2, &bytes).unwrap();
                            let d2 = dump::dump_container(&f2, &plan);
                            out.obs.inc("last_pack_of_many_altered");
                            for key in ["check/container", "check/file/c.jbk"] {
                                if d2.get(key).map(|v| v == "ok:true").unwrap_or(false) {
                                    out.violate(json!({"kind": "check-true-after-damage", "check": key, "structure": "cluster data of the last of many packs", "profile": profile()}), format!("C04: {key} answers Ok(true) although a byte of the last of {} packs was altered", view.packs.len()), json!({}));
                                }
                            }
                        }
                    }
                }
                // the same through the command line tool, for every file of the container
                for f in &created.files {
                    match cli::check(f) {
                        Some(v) => {
                            out.obs.inc("pristine_checks_by_command_line");
                            if v != "ok:true" {
                                out.violate(json!({"kind": "pristine-check", "check": "cli/check", "profile": profile()}), format!("C04: `jbk check` on a freshly created {} file ({}, {}) says {v}", f.extension().and_then(|e| e.to_str()).unwrap_or("?"), case.pkg.as_str(), case.content.comp.name()), json!({}));
                            }
                        }
                        None => out.obs.inc("command_line_tool_unavailable"),
                    }
                }
            }
            Ok(Err(e)) => out.inconclusive(format!("creation failed (C01/C02's concern): {e}")),
            Err(p) => out.inconclusive(format!("creation panicked (C01/C02's concern): {}", p.msg)),
        }
        out
    }
}

fn arm_watchdog(k: u64, secs: u64) -> std::sync::Arc<std::sync::atomic::AtomicBool> {
    let done = std::sync::Arc::new(std::sync::atomic::AtomicBool::new(false));
    if secs == 0 {
        return done;
    }
    let d = done.clone();
    std::thread::spawn(move || {
        let t0 = std::time::Instant::now();
        while t0.elapsed().as_secs() < secs {
            std::thread::sleep(std::time::Duration::from_millis(100));
            if d.load(std::sync::atomic::Ordering::Relaxed) {
                return;
            }
        }
        if !d.load(std::sync::atomic::Ordering::Relaxed) {
            // evidence taken from inside the stuck execution itself: state and CPU time of every thread, twice, 1.5 s apart
            // ("every thread asleep and none made any progress" cannot be produced by a slow machine: a starved thread is runnable)
            let me = unsafe { libc::syscall(libc::SYS_gettid) } as u64;
            let sample = || -> Vec<(u64, char, u64)> {
                let mut v = vec![];
                if let Ok(rd) = std::fs::read_dir("/proc/self/task") {
                    for e in rd.flatten() {
                        let tid: u64 = e.file_name().to_string_lossy().parse().unwrap_or(0);
                        if let Ok(st) = std::fs::read_to_string(e.path().join("stat")) {
                            if let Some(rest) = st.rsplit_once(')').map(|x| x.1) {
                                let f: Vec<&str> = rest.split_whitespace().collect();
                                let state = f.first().and_then(|x| x.chars().next()).unwrap_or('?');
                                let ticks = f.get(11).and_then(|x| x.parse::<u64>().ok()).unwrap_or(0) + f.get(12).and_then(|x| x.parse::<u64>().ok()).unwrap_or(0);
                                v.push((tid, state, ticks));
                            }
                        }
                    }
                }
                v
            };
            let a = sample();
            std::thread::sleep(std::time::Duration::from_millis(1500));
            let b = sample();
            let others: Vec<&(u64, char, u64)> = b.iter().filter(|t| t.0 != me).collect();
            let all_asleep = !others.is_empty() && others.iter().all(|t| t.1 == 'S');
            let progress: u64 = others.iter().map(|t| t.2.saturating_sub(a.iter().find(|x| x.0 == t.0).map(|x| x.2).unwrap_or(t.2))).sum();
            let still_stuck = !d.load(std::sync::atomic::Ordering::Relaxed);
            util::emit(&json!({"t": "hang", "k": k, "after_s": secs, "threads": others.len(), "all_asleep": all_asleep && still_stuck, "cpu_ticks_in_1500ms": progress}));
            std::process::exit(3);
        }
    });
    done
}

fn main() {
    util::install_panic_hook();
    let args = parse_args();
    let cmd = args.pos.first().cloned().unwrap_or_default();
    let prop = args.pos.get(1).cloned().unwrap_or_default();
    let tier = Tier::parse(&args.s("tier", "quick"));
    let seed = args.u64("seed", 1);
    let work = PathBuf::from(args.s("work", "/verif/work"));
    std::fs::create_dir_all(&work).ok();
    let ctx = Ctx { work, tier, seed };
    match cmd.as_str() {
        "plan" => {
            if let Some(o) = lab_oracle(&prop) {
                println!("{}", lab::count_for(seed, tier, o, &ctx.work));
                lab::drop_specimens();
                return;
            }
            let (count, _, _) = table(&prop).expect("unknown property");
            println!("{}", count(tier));
        }
        "run" => {
            let case_timeout = args.u64("case-timeout", 0);
            let total = match lab_oracle(&prop) {
                Some(o) => lab::count_for(seed, tier, o, &ctx.work),
                None => (table(&prop).expect("unknown property").0)(tier),
            };
            let from = args.u64("from", 0);
            let to = args.u64("to", total).min(total);
            let stride = args.u64("stride", 1).max(1);
            let mut k = from;
            while k < to {
                let desc = match lab_oracle(&prop) {
                    Some(o) => lab::gen_for(seed, tier, k, o, &ctx.work),
                    None => (table(&prop).unwrap().1)(seed, tier, k),
                };
                util::emit(&json!({"t": "begin", "k": k, "case": desc}));
                let wd = arm_watchdog(k, case_timeout);
                let out = match lab_oracle(&prop) {
                    Some(o) => lab::run_for(&desc, &ctx, o),
                    None => (table(&prop).unwrap().2)(&desc, &ctx),
                };
                wd.store(true, std::sync::atomic::Ordering::Relaxed);
                util::emit(&out.to_json(k));
                k += stride;
            }
            lab::drop_specimens();
            #[cfg(jubako_verif)]
            c07::drop_fixtures();
            util::emit(&json!({"t": "done"}));
        }
        "replay" => {
            let run: RunFn = match lab_oracle(&prop) {
                Some(lab::Oracle::C04) => |d, c| lab::run_for(d, c, lab::Oracle::C04),
                Some(lab::Oracle::C05) => |d, c| lab::run_for(d, c, lab::Oracle::C05),
                Some(lab::Oracle::C06) => |d, c| lab::run_for(d, c, lab::Oracle::C06),
                None => table(&prop).expect("unknown property").2,
            };
            let f = args.s("case-file", "");
            let text = std::fs::read_to_string(&f).expect("read case file");
            let v: Value = serde_json::from_str(&text).expect("json");
            let desc = v.get("case").cloned().unwrap_or(v);
            util::emit(&json!({"t": "begin", "k": 0, "case": desc}));
            let out = run(&desc, &ctx);
            util::emit(&out.to_json(0));
            lab::drop_specimens();
            util::emit(&json!({"t": "done"}));
        }
        "c09-case" => {
            // print the descriptor of the C09 case (profile, packaging)
            let case = c09::gen_case(seed, &args.s("profile", "content-larger"), c01::Pkg::parse(&args.s("pkg", "onefile")));
            println!("{}", case.to_json());
        }
        "c09-child" => {
            let text = std::fs::read_to_string(args.s("case-file", "")).expect("case file");
            let case = cont::ContCase::from_json(&serde_json::from_str(&text).expect("json"));
            let dir = PathBuf::from(args.s("dir", "."));
            let rc = match util::catch(|| c09::child(&case, &dir, &args.s("name", "c.jbk"), args.u64("ignore-xfsz", 0))) {
                Ok(rc) => rc,
                Err(_) => 101,
            };
            std::process::exit(rc);
        }
        "c09-inspect" => {
            let text = std::fs::read_to_string(args.s("case-file", "")).expect("case file");
            let case = cont::ContCase::from_json(&serde_json::from_str(&text).expect("json"));
            let dest = PathBuf::from(args.s("dest", "c.jbk"));
            let old = args.kv.get("old-dir").map(PathBuf::from);
            println!("{}", c09::inspect(&case, &dest, old.as_deref()));
        }
        _ => {
            eprintln!("usage: jbkverif plan|run|replay <PROP> [--seed N --tier quick|thorough --from A --to B --stride S --work DIR]");
            std::process::exit(2);
        }
    }
}
