use jbkverif::proto::*;
use jbkverif::*;
use serde_json::{json, Value};
use std::path::PathBuf;

struct Args {
    pos: Vec<String>,
    kv: std::collections::HashMap<String, String>,
}

fn parse_args() -> Args {
    let mut pos = vec![];
    let mut kv = std::collections::HashMap::new();
    let mut it = std::env::args().skip(1);
    while let Some(a) = it.next() {
        if let Some(k) = a.strip_prefix("--") {
            let v = it.next().unwrap_or_default();
            kv.insert(k.to_string(), v);
        } else {
            pos.push(a);
        }
    }
    Args { pos, kv }
}

impl Args {
    fn u64(&self, k: &str, d: u64) -> u64 {
        self.kv.get(k).and_then(|v| v.parse().ok()).unwrap_or(d)
    }
    fn s(&self, k: &str, d: &str) -> String {
        self.kv.get(k).cloned().unwrap_or_else(|| d.to_string())
    }
}

type GenFn = fn(u64, Tier, u64) -> Value;
type RunFn = fn(&Value, &Ctx) -> CaseOut;
type CountFn = fn(Tier) -> u64;

fn table(prop: &str) -> Option<(CountFn, GenFn, RunFn)> {
    Some(match prop {
        "C01" => (c01::count, c01::gen, c01::run),
        "C02" => (c02::count, c02::gen, c02::run),
        "C03" => (c03::count, c03::gen, c03::run),
        "C10" => (c10::count, c10::gen, c10::run),
        "C11" => (c11::count, c11::gen, c11::run),
        "C12" => (c12::count, c12::gen, c12::run),
        "C13" => (c13::count, c13::gen, c13::run),
        "C14" => (c14::count, c14::gen, c14::run),
        "C15" => (c15::count, c15::gen, c15::run),
        "C16" => (c16::count, c16::gen, c16::run),
        _ => return None,
    })
}

fn main() {
    util::install_panic_hook();
    let args = parse_args();
    let cmd = args.pos.first().cloned().unwrap_or_default();
    let prop = args.pos.get(1).cloned().unwrap_or_default();
    let tier = Tier::parse(&args.s("tier", "quick"));
    let seed = args.u64("seed", 1);
    let work = PathBuf::from(args.s("work", "/verif/work"));
    std::fs::create_dir_all(&work).ok();
    let ctx = Ctx { work, tier, seed };
    match cmd.as_str() {
        "plan" => {
            let (count, _, _) = table(&prop).expect("unknown property");
            println!("{}", count(tier));
        }
        "run" => {
            let (count, gen, run) = table(&prop).expect("unknown property");
            let from = args.u64("from", 0);
            let to = args.u64("to", count(tier)).min(count(tier));
            let stride = args.u64("stride", 1).max(1);
            let mut k = from;
            while k < to {
                let desc = gen(seed, tier, k);
                util::emit(&json!({"t": "begin", "k": k, "case": desc}));
                let out = run(&desc, &ctx);
                util::emit(&out.to_json(k));
                k += stride;
            }
            util::emit(&json!({"t": "done"}));
        }
        "replay" => {
            let (_, _, run) = table(&prop).expect("unknown property");
            let f = args.s("case-file", "");
            let text = std::fs::read_to_string(&f).expect("read case file");
            let v: Value = serde_json::from_str(&text).expect("json");
            let desc = v.get("case").cloned().unwrap_or(v);
            util::emit(&json!({"t": "begin", "k": 0, "case": desc}));
            let out = run(&desc, &ctx);
            util::emit(&out.to_json(0));
            util::emit(&json!({"t": "done"}));
        }
        _ => {
            eprintln!("usage: jbkverif plan|run|replay <PROP> [--seed N --tier quick|thorough --from A --to B --stride S --work DIR]");
            std::process::exit(2);
        }
    }
}
