//! Small driver of the length-publication protocol for Miri / TSan: N readers on one or more
//! buffers decoded by the crate's background decoder from a pure-Rust chunked `Read`.
//! usage: c07miri <readers> <chunks> <seed> [buffers]
#[cfg(not(jubako_verif))]
fn main() {
    eprintln!("c07miri needs the library built with --cfg jubako_verif");
    std::process::exit(2);
}

#[cfg(jubako_verif)]
fn main() {
    use jbkverif::c07::{install_hook, reader_ops, ChunkyDecoder};
    use jbkverif::proto::Tally;
    use jbkverif::rng::{mix, Rng};
    use std::sync::Arc;
    let a: Vec<u64> = std::env::args().skip(1).filter_map(|x| x.parse().ok()).collect();
    let readers = *a.first().unwrap_or(&3) as usize;
    let chunks = *a.get(1).unwrap_or(&3) as usize;
    let seed = *a.get(2).unwrap_or(&1);
    let buffers = *a.get(3).unwrap_or(&1) as usize;
    install_hook();
    let mut rng = Rng::new(seed);
    let mut failures = 0;
    let datas: Vec<Arc<Vec<u8>>> = (0..buffers)
        .map(|b| {
            // total size around `chunks` decode chunks of 4 KiB, not aligned
            let total = chunks * 4096 - rng.usize_below(3) * 7 + b;
            Arc::new(rng.bytes(total))
        })
        .collect();
    let regions: Vec<_> = datas
        .iter()
        .enumerate()
        .map(|(i, d)| jubako::verif::region_from_decoder(ChunkyDecoder::new(d.clone(), seed ^ i as u64, *rng.pick(&[700usize, 4096, 9000]), true), d.len()))
        .collect();
    std::thread::scope(|s| {
        let mut hs = vec![];
        for t in 0..readers {
            let regions = &regions;
            let datas = &datas;
            hs.push(s.spawn(move || {
                let mut rng = Rng::new(seed ^ mix(t as u64 + 77));
                let mut tally = Tally::default();
                for i in 0..regions.len() {
                    if let Err(e) = reader_ops(&regions[i], &datas[i], &mut rng, 3, &mut tally) {
                        eprintln!("MISMATCH reader {t} buffer {i}: {e}");
                        return 1;
                    }
                }
                0
            }));
        }
        for h in hs {
            failures += h.join().unwrap_or(1);
        }
    });
    drop(regions);
    if failures > 0 {
        eprintln!("C07MIRI-VIOLATION bytes");
        std::process::exit(1);
    }
    println!("C07MIRI-OK readers={readers} chunks={chunks} seed={seed} buffers={buffers}");
}
