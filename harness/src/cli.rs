//! The repository's own command line tool (`jbk`, built from /repo by the driver) as a second entry point:
//! `jbk check`, `jbk concat`, `jbk locate`. The path comes from the environment (JBK_CLI); when it is not set the
//! callers fall back to the library calls and count that.

use std::ffi::OsStr;
use std::path::{Path, PathBuf};
use std::process::{Command, Stdio};

pub struct CliOut {
    pub code: Option<i32>,
    pub stdout: String,
    pub stderr: String,
}

pub fn bin() -> Option<PathBuf> {
    let p = PathBuf::from(std::env::var_os("JBK_CLI")?);
    if p.is_file() {
        Some(p)
    } else {
        None
    }
}

/// Run `jbk <args>`; None when the tool is not available or could not be started / did not end within 120 s
/// (never a verdict on the library).
pub fn run<S: AsRef<OsStr>>(args: &[S]) -> Option<CliOut> {
    let b = bin()?;
    let mut child = Command::new(b).args(args).stdin(Stdio::null()).stdout(Stdio::piped()).stderr(Stdio::piped()).env("RUST_BACKTRACE", "0").spawn().ok()?;
    // both pipes are drained while the tool runs (an error message can quote a whole block of the file, far more than a pipe holds)
    fn drain(r: Option<impl std::io::Read + Send + 'static>) -> std::thread::JoinHandle<Vec<u8>> {
        std::thread::spawn(move || {
            let mut v = vec![];
            if let Some(mut r) = r {
                let mut buf = [0u8; 65536];
                while let Ok(n) = r.read(&mut buf) {
                    if n == 0 {
                        break;
                    }
                    // keep the beginning only
                    if v.len() < 1 << 20 {
                        v.extend_from_slice(&buf[..n]);
                    }
                }
            }
            v
        })
    }
    let out_t = drain(child.stdout.take());
    let err_t = drain(child.stderr.take());
    let t0 = std::time::Instant::now();
    let status = loop {
        match child.try_wait() {
            Ok(Some(st)) => break st,
            Ok(None) => {
                if t0.elapsed().as_secs() > 120 {
                    let _ = child.kill();
                    let _ = child.wait();
                    return None;
                }
                std::thread::sleep(std::time::Duration::from_millis(1));
            }
            Err(_) => return None,
        }
    };
    let stdout = out_t.join().unwrap_or_default();
    let stderr = err_t.join().unwrap_or_default();
    Some(CliOut { code: status.code(), stdout: String::from_utf8_lossy(&stdout).into_owned(), stderr: String::from_utf8_lossy(&stderr).into_owned() })
}

/// `jbk check <file>` folded to the classes of the dump: "ok:true", "ok:false", "err:<message>", "panic:<first line>"
pub fn check(file: &Path) -> Option<String> {
    let o = run(&[OsStr::new("check"), file.as_os_str()])?;
    Some(if o.stdout.contains(" is ok") {
        "ok:true".into()
    } else if o.stdout.contains(" s ko") {
        "ok:false".into()
    } else if o.code == Some(101) || o.stderr.contains("panicked at") {
        format!("panic:{}", o.stderr.lines().find(|l| l.contains("panicked at")).unwrap_or(""))
    } else if o.stderr.contains("Error:") {
        format!("err:{}", o.stderr.trim())
    } else {
        format!("other:code={:?} stdout={:?} stderr={:?}", o.code, o.stdout.trim(), o.stderr.trim())
    })
}

pub enum SetLoc {
    /// "Change <kind> pack <uuid> location from `<old>` to `<new>`"
    Changed { old: String },
    NotInManifest,
    Error(String),
    Panic(String),
    Other(String),
}

/// `jbk locate <file> <uuid> <new location>`
pub fn set_location(file: &Path, uuid: &uuid::Uuid, newloc: &str) -> Option<SetLoc> {
    let u = uuid.to_string();
    let o = run(&[OsStr::new("locate"), OsStr::new("--"), file.as_os_str(), OsStr::new(&u), OsStr::new(newloc)])?;
    Some(if let Some(rest) = o.stdout.split(" location from `").nth(1) {
        // the new location ends the line: "<old>` to `<new>`"
        let tail = format!("` to `{newloc}`");
        match rest.trim_end_matches('\n').strip_suffix(tail.as_str()) {
            Some(old) => SetLoc::Changed { old: old.to_string() },
            None => SetLoc::Other(format!("unexpected report {:?}", o.stdout)),
        }
    } else if o.stderr.contains("is not in the manifest") {
        SetLoc::NotInManifest
    } else if o.code == Some(101) || o.stderr.contains("panicked at") {
        SetLoc::Panic(o.stderr.lines().find(|l| l.contains("panicked at")).unwrap_or("").to_string())
    } else if !o.stderr.trim().is_empty() {
        SetLoc::Error(o.stderr.trim().to_string())
    } else {
        SetLoc::Other(format!("code={:?} stdout={:?}", o.code, o.stdout))
    })
}

/// `jbk locate <file> <uuid>`: the declared location it prints
pub fn declared_location(file: &Path, uuid: &uuid::Uuid) -> Option<String> {
    let u = uuid.to_string();
    let o = run(&[OsStr::new("locate"), OsStr::new("--"), file.as_os_str(), OsStr::new(&u)])?;
    let line = o.stdout.lines().next()?;
    if let Some(r) = line.split("has declared location `").nth(1) {
        return r.strip_suffix('`').map(|s| s.to_string());
    }
    if let Some(r) = line.split("(with declared location `").nth(1) {
        return r.rsplit_once("`) is located in ").map(|(a, _)| a.to_string());
    }
    None
}

/// `jbk concat -o <out> <inputs…>`; Ok(()) when it reported nothing on stderr
pub fn concat(inputs: &[PathBuf], out: &Path) -> Option<Result<(), String>> {
    let mut args: Vec<&OsStr> = vec![OsStr::new("concat"), OsStr::new("-o"), out.as_os_str()];
    for i in inputs {
        args.push(i.as_os_str());
    }
    let o = run(&args)?;
    Some(if o.code == Some(0) && o.stderr.trim().is_empty() { Ok(()) } else { Err(format!("code={:?} {}", o.code, o.stderr.trim())) })
}
