//! Content-side generator and reference model: what is handed to a content-pack creator,
//! the addresses it returned, and the regeneration of the expected bytes.

use crate::proto::*;
use crate::rng::{mix, Rng};
use jubako as jbk;
use jubako::creator::{CompHint, Compression, ContentAdder, InputFile, InputReader};
use serde_json::{json, Value};
use std::io::{Cursor, Write};
use std::path::Path;

#[derive(Clone, Copy, PartialEq, Eq, Debug)]
pub enum Ent {
    Zero,
    Low4,
    Mid6,
    Mid7,
    High,
    /// words drawn from a small dictionary: repetitive, so that LZ77-only codecs (lz4) really compress it
    Text,
}

impl Ent {
    pub fn as_str(&self) -> &'static str {
        match self {
            Ent::Zero => "zero",
            Ent::Low4 => "low4",
            Ent::Mid6 => "mid6",
            Ent::Mid7 => "mid7",
            Ent::High => "high",
            Ent::Text => "text",
        }
    }
    pub fn parse(s: &str) -> Ent {
        match s {
            "zero" => Ent::Zero,
            "low4" => Ent::Low4,
            "mid6" => Ent::Mid6,
            "mid7" => Ent::Mid7,
            "text" => Ent::Text,
            _ => Ent::High,
        }
    }
    pub const ALL: [Ent; 6] = [Ent::Zero, Ent::Low4, Ent::Mid6, Ent::Mid7, Ent::High, Ent::Text];
}

#[derive(Clone, Copy, PartialEq, Eq, Debug)]
pub enum Hint {
    Yes,
    No,
    Detect,
}

impl Hint {
    pub fn as_str(&self) -> &'static str {
        match self {
            Hint::Yes => "yes",
            Hint::No => "no",
            Hint::Detect => "detect",
        }
    }
    pub fn parse(s: &str) -> Hint {
        match s {
            "yes" => Hint::Yes,
            "no" => Hint::No,
            _ => Hint::Detect,
        }
    }
    pub fn to_jbk(&self) -> CompHint {
        match self {
            Hint::Yes => CompHint::Yes,
            Hint::No => CompHint::No,
            Hint::Detect => CompHint::Detect,
        }
    }
    pub const ALL: [Hint; 3] = [Hint::Yes, Hint::No, Hint::Detect];
}

#[derive(Clone, Copy, PartialEq, Eq, Debug)]
pub enum Src {
    /// `Cursor<Vec<u8>>`
    Mem,
    /// `InputFile::open` on a file holding exactly the content
    File,
    /// `InputFile::new_range(file, before, Some(len))` with `after` bytes following the content
    Range { before: usize, after: usize },
    /// `InputFile::new_range(file, before, None)` (content runs to the end of the file)
    RangeToEnd { before: usize },
}

impl Src {
    pub fn to_json(&self) -> Value {
        match self {
            Src::Mem => json!("mem"),
            Src::File => json!("file"),
            Src::Range { before, after } => json!({"range": [before, after]}),
            Src::RangeToEnd { before } => json!({"range_to_end": before}),
        }
    }
    pub fn parse(v: &Value) -> Src {
        if let Some(s) = v.as_str() {
            return if s == "file" { Src::File } else { Src::Mem };
        }
        if let Some(a) = v.get("range").and_then(|x| x.as_array()) {
            return Src::Range {
                before: a[0].as_u64().unwrap_or(0) as usize,
                after: a[1].as_u64().unwrap_or(0) as usize,
            };
        }
        if let Some(b) = v.get("range_to_end").and_then(|x| x.as_u64()) {
            return Src::RangeToEnd { before: b as usize };
        }
        Src::Mem
    }
    pub fn class(&self) -> &'static str {
        match self {
            Src::Mem => "mem",
            Src::File => "file",
            Src::Range { .. } => "range",
            Src::RangeToEnd { .. } => "range_to_end",
        }
    }
}

#[derive(Clone, Copy, PartialEq, Eq, Debug)]
pub enum Comp {
    None,
    Lz4(u32),
    Lzma(u32),
    Zstd(i32),
}

impl Comp {
    pub fn to_json(&self) -> Value {
        match self {
            Comp::None => json!(["none", 0]),
            Comp::Lz4(l) => json!(["lz4", l]),
            Comp::Lzma(l) => json!(["lzma", l]),
            Comp::Zstd(l) => json!(["zstd", l]),
        }
    }
    pub fn parse(v: &Value) -> Comp {
        let a = v.as_array().cloned().unwrap_or_default();
        let name = a.first().and_then(|x| x.as_str()).unwrap_or("none");
        let lvl = a.get(1).and_then(|x| x.as_i64()).unwrap_or(0);
        match name {
            "lz4" => Comp::Lz4(lvl as u32),
            "lzma" => Comp::Lzma(lvl as u32),
            "zstd" => Comp::Zstd(lvl as i32),
            _ => Comp::None,
        }
    }
    pub fn to_jbk(&self) -> Compression {
        match self {
            Comp::None => Compression::None,
            // the default levels go through the library's own constructors
            Comp::Lz4(3) => Compression::lz4(),
            Comp::Lzma(9) => Compression::lzma(),
            Comp::Zstd(5) => Compression::zstd(),
            Comp::Lz4(l) => Compression::Lz4(deranged::RangedU32::new(*l).expect("lz4 level")),
            Comp::Lzma(l) => Compression::Lzma(deranged::RangedU32::new(*l).expect("lzma level")),
            Comp::Zstd(l) => Compression::Zstd(deranged::RangedI32::new(*l).expect("zstd level")),
        }
    }
    /// compression byte stored in a cluster tail
    pub fn code(&self) -> u8 {
        match self {
            Comp::None => 0,
            Comp::Lz4(_) => 1,
            Comp::Lzma(_) => 2,
            Comp::Zstd(_) => 3,
        }
    }
    pub fn name(&self) -> &'static str {
        match self {
            Comp::None => "none",
            Comp::Lz4(_) => "lz4",
            Comp::Lzma(_) => "lzma",
            Comp::Zstd(_) => "zstd",
        }
    }
    /// a few levels per codec for quick tiers, every level for thorough
    pub fn pick(rng: &mut Rng, tier: Tier) -> Comp {
        match rng.below(7) {
            0 => Comp::None,
            1 | 2 => match tier {
                Tier::Quick => Comp::Lz4(*rng.pick(&[0, 3, 9])),
                Tier::Thorough => Comp::Lz4(rng.range(0, 15) as u32),
            },
            3 => match tier {
                // lzma is slow: low presets in quick
                Tier::Quick => Comp::Lzma(*rng.pick(&[0, 1])),
                Tier::Thorough => Comp::Lzma(rng.range(0, 9) as u32),
            },
            _ => match tier {
                Tier::Quick => Comp::Zstd(*rng.pick(&[-3, 1, 5])),
                Tier::Thorough => Comp::Zstd(rng.range(0, 44) as i32 - 22),
            },
        }
    }
}

#[derive(Clone, Debug)]
pub struct Item {
    pub len: usize,
    pub ent: Ent,
    pub hint: Hint,
    pub src: Src,
    /// bytes are those of this earlier item (same length/entropy), not fresh ones
    pub dup_of: Option<usize>,
    /// bytes are those of earlier item `a` followed by those of earlier item `b` (`len` is the sum): a content whose
    /// bytes are the concatenation of two contents inserted one after the other
    pub cat_of: Option<(usize, usize)>,
}

#[derive(Clone, Debug)]
pub struct ContentCase {
    pub seed: u64,
    pub comp: Comp,
    pub cached: bool,
    pub items: Vec<Item>,
}

/// Deterministic content bytes. Every 8-byte word encodes (seed, call#, word index) through
/// SplitMix64, optionally masked to lower the entropy, so a mismatching read can be attributed.
pub fn gen_bytes(seed: u64, call: u64, len: usize, ent: Ent) -> Vec<u8> {
    if ent == Ent::Zero {
        // entropy 0, but still content-specific: a single repeated byte derived from the call
        return vec![(mix(seed ^ mix(call)) & 0xff) as u8; len];
    }
    if ent == Ent::Text {
        const WORDS: [&str; 16] = ["jubako ", "container ", "pack ", "cluster ", "entry ", "store ", "value ", "index ", "the ", "of ", "and ", "content ", "manifest ", "directory ", "offset ", "size\n"];
        let base = mix(seed ^ mix(call.wrapping_mul(0x9E37_79B9_7F4A_7C15)));
        let mut v = Vec::with_capacity(len + 16);
        let mut i = 0u64;
        // a per-content phrase repeated with small variations
        while v.len() < len {
            let w = mix(base ^ (i % 23).wrapping_mul(0xD6E8_FEB8_6659_FD93) ^ (i / 97));
            v.extend_from_slice(WORDS[(w % 16) as usize].as_bytes());
            i += 1;
        }
        v.truncate(len);
        return v;
    }
    let mask: u64 = match ent {
        Ent::Low4 => 0x0f0f_0f0f_0f0f_0f0f,
        Ent::Mid6 => 0x3f3f_3f3f_3f3f_3f3f,
        Ent::Mid7 => 0x7f7f_7f7f_7f7f_7f7f,
        _ => u64::MAX,
    };
    let base = mix(seed ^ mix(call.wrapping_mul(0x9E37_79B9_7F4A_7C15)));
    let mut v = Vec::with_capacity(len + 8);
    let mut i = 0u64;
    while v.len() < len {
        let w = mix(base ^ i.wrapping_mul(0xD6E8_FEB8_6659_FD93)) & mask;
        v.extend_from_slice(&w.to_le_bytes());
        i += 1;
    }
    v.truncate(len);
    v
}

pub fn shannon(data: &[u8]) -> f32 {
    // same formula and float width as the library's sniffing, computed by the harness
    let mut counts = [0usize; 256];
    for b in data {
        counts[*b as usize] += 1;
    }
    let mut e = 0.0f32;
    for &c in &counts {
        if c == 0 {
            continue;
        }
        let p = c as f32 / data.len() as f32;
        e -= p * p.log(2.0);
    }
    e
}

impl ContentCase {
    pub fn bytes_of(&self, i: usize) -> Vec<u8> {
        let it = &self.items[i];
        if let Some((a, b)) = it.cat_of {
            let mut v = self.bytes_of(a);
            v.extend_from_slice(&self.bytes_of(b));
            return v;
        }
        let call = it.dup_of.unwrap_or(i);
        gen_bytes(self.seed, call as u64, it.len, it.ent)
    }

    pub fn to_json(&self) -> Value {
        // run-length encode identical consecutive parameter sets
        let mut groups: Vec<Value> = vec![];
        let mut i = 0;
        while i < self.items.len() {
            let it = &self.items[i];
            let mut n = 1;
            while i + n < self.items.len() {
                let o = &self.items[i + n];
                if o.len == it.len
                    && o.ent == it.ent
                    && o.hint == it.hint
                    && o.src == it.src
                    && o.dup_of.is_none()
                    && it.dup_of.is_none()
                    && o.cat_of.is_none()
                    && it.cat_of.is_none()
                {
                    n += 1
                } else {
                    break;
                }
            }
            groups.push(json!({"n": n, "len": it.len, "ent": it.ent.as_str(), "hint": it.hint.as_str(),
                               "src": it.src.to_json(), "dup": it.dup_of, "cat": it.cat_of.map(|(a, b)| vec![a, b])}));
            i += n;
        }
        json!({"seed": self.seed, "comp": self.comp.to_json(), "cached": self.cached, "groups": groups})
    }

    pub fn from_json(v: &Value) -> ContentCase {
        let mut items = vec![];
        for g in jarr(v, "groups") {
            let n = ju64(g, "n").max(1) as usize;
            for _ in 0..n {
                items.push(Item {
                    len: ju64(g, "len") as usize,
                    ent: Ent::parse(jstr(g, "ent")),
                    hint: Hint::parse(jstr(g, "hint")),
                    src: Src::parse(g.get("src").unwrap_or(&Value::Null)),
                    dup_of: g.get("dup").and_then(|x| x.as_u64()).map(|x| x as usize),
                    cat_of: g.get("cat").and_then(|x| x.as_array()).filter(|a| a.len() == 2).map(|a| (a[0].as_u64().unwrap_or(0) as usize, a[1].as_u64().unwrap_or(0) as usize)),
                });
            }
        }
        ContentCase {
            seed: ju64(v, "seed"),
            comp: Comp::parse(v.get("comp").unwrap_or(&Value::Null)),
            cached: jbool(v, "cached"),
            items,
        }
    }

    /// Number of contents the pack must report: every call for the plain adder,
    /// one per distinct byte string for the deduplicating adder.
    pub fn expected_count(&self) -> usize {
        if !self.cached {
            return self.items.len();
        }
        let mut seen = std::collections::HashSet::new();
        for i in 0..self.items.len() {
            seen.insert(blake3::hash(&self.bytes_of(i)));
        }
        seen.len()
    }

    pub fn total_bytes(&self) -> u64 {
        self.items.iter().map(|i| i.len as u64).sum()
    }
}

/// Build the `InputReader` for item `i` (writing a temp file when the source is file based).
pub fn make_reader(case: &ContentCase, i: usize, dir: &Path) -> std::io::Result<Box<dyn InputReader>> {
    let it = &case.items[i];
    let bytes = case.bytes_of(i);
    Ok(match it.src {
        Src::Mem => Box::new(Cursor::new(bytes)),
        Src::File => {
            let p = dir.join(format!("in-{i}.bin"));
            std::fs::write(&p, &bytes)?;
            Box::new(InputFile::open(&p)?)
        }
        Src::Range { before, after } => {
            let p = dir.join(format!("in-{i}.bin"));
            let mut f = std::fs::File::create(&p)?;
            let mut pad = Rng::new(case.seed ^ 0x5151 ^ i as u64);
            f.write_all(&pad.bytes(before))?;
            f.write_all(&bytes)?;
            f.write_all(&pad.bytes(after))?;
            drop(f);
            Box::new(InputFile::new_range(
                std::fs::File::open(&p)?,
                before as u64,
                Some(bytes.len() as u64),
            )?)
        }
        Src::RangeToEnd { before } => {
            let p = dir.join(format!("in-{i}.bin"));
            let mut f = std::fs::File::create(&p)?;
            let mut pad = Rng::new(case.seed ^ 0x5151 ^ i as u64);
            f.write_all(&pad.bytes(before))?;
            f.write_all(&bytes)?;
            drop(f);
            Box::new(InputFile::new_range(std::fs::File::open(&p)?, before as u64, None)?)
        }
    })
}

/// Insert every item through `adder`, logging the address each call returned (client boundary).
pub fn add_all(
    adder: &mut dyn ContentAdder,
    case: &ContentCase,
    dir: &Path,
) -> std::io::Result<Vec<jbk::ContentAddress>> {
    let mut out = Vec::with_capacity(case.items.len());
    for i in 0..case.items.len() {
        let reader = make_reader(case, i, dir)?;
        out.push(adder.add_content(reader, case.items[i].hint.to_jbk())?);
    }
    Ok(out)
}

pub const VENDOR: [u8; 4] = [0x76, 0x72, 0x66, 0x01];

pub fn vendor() -> jbk::VendorId {
    jbk::VendorId::new(VENDOR)
}

/// Compare the bytes read for item `i` with the model; on mismatch say where the foreign bytes come from.
pub fn explain_mismatch(case: &ContentCase, i: usize, got: &[u8]) -> String {
    let exp = case.bytes_of(i);
    if got.len() != exp.len() {
        // maybe it is another item entirely
        for j in 0..case.items.len().min(5000) {
            if case.items[j].len == got.len() && case.bytes_of(j) == got {
                return format!("length {} != {}; bytes are exactly those of item {j}", got.len(), exp.len());
            }
        }
        return format!("length {} != expected {}", got.len(), exp.len());
    }
    let pos = got.iter().zip(exp.iter()).position(|(a, b)| a != b).unwrap_or(0);
    let tail = &got[pos..got.len().min(pos + 16)];
    // look for the foreign bytes in the other contents
    if tail.len() >= 8 {
        for j in 0..case.items.len().min(2000) {
            if j == i {
                continue;
            }
            let o = case.bytes_of(j);
            if let Some(p) = o.windows(tail.len()).position(|w| w == tail) {
                return format!("first difference at offset {pos}; bytes there belong to item {j} offset {p}");
            }
        }
        if let Some(p) = exp.windows(tail.len()).position(|w| w == tail) {
            return format!("first difference at offset {pos}; bytes there are this item's own bytes at offset {p} (shifted)");
        }
    }
    format!(
        "first difference at offset {pos}: got {} expected {}",
        crate::util::brief(tail),
        crate::util::brief(&exp[pos..exp.len().min(pos + 16)])
    )
}

pub const LEN_BOUNDARIES: [usize; 15] = [
    0, 1, 2, 3, 255, 256, 257, 4095, 4096, 4097, 65535, 65536, 65537, 100_000, 300_000,
];

pub fn len_class(len: usize) -> &'static str {
    match len {
        0 => "0",
        1..=255 => "<=255",
        256..=65535 => "<=64K",
        65536..=0xFF_FFFF => "<=16M",
        _ => ">16M",
    }
}
