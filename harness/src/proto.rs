//! Worker protocol: one JSON line `begin` before a case, one `end` after it.

use crate::util::{self, PanicInfo};
use serde_json::{json, Map, Value};
use std::collections::{BTreeMap, BTreeSet};

#[derive(Clone, Copy, PartialEq, Eq, Debug)]
pub enum Verdict {
    Held,
    Violated,
    Inconclusive,
}

impl Verdict {
    pub fn as_str(&self) -> &'static str {
        match self {
            Verdict::Held => "held",
            Verdict::Violated => "violated",
            Verdict::Inconclusive => "inconclusive",
        }
    }
}

#[derive(Clone, Debug)]
pub struct Violation {
    /// signature: stable identification of *what* fails (no line numbers, no random values)
    pub sig: Value,
    pub what: String,
    pub detail: Value,
}

#[derive(Default, Clone, Debug)]
pub struct Tally {
    pub n: BTreeMap<String, u64>,
    pub sets: BTreeMap<String, BTreeSet<String>>,
}

impl Tally {
    pub fn inc(&mut self, k: &str) {
        *self.n.entry(k.to_string()).or_insert(0) += 1;
    }
    pub fn add(&mut self, k: &str, v: u64) {
        *self.n.entry(k.to_string()).or_insert(0) += v;
    }
    pub fn max(&mut self, k: &str, v: u64) {
        let e = self.n.entry(format!("max:{k}")).or_insert(0);
        if v > *e {
            *e = v
        }
    }
    pub fn set(&mut self, k: &str, member: impl Into<String>) {
        let s = self.sets.entry(k.to_string()).or_default();
        if s.len() < 4096 {
            s.insert(member.into());
        }
    }
    pub fn merge(&mut self, o: &Tally) {
        for (k, v) in &o.n {
            if k.starts_with("max:") {
                let e = self.n.entry(k.clone()).or_insert(0);
                if *v > *e {
                    *e = *v
                }
            } else {
                *self.n.entry(k.clone()).or_insert(0) += v;
            }
        }
        for (k, s) in &o.sets {
            let d = self.sets.entry(k.clone()).or_default();
            for m in s {
                if d.len() < 4096 {
                    d.insert(m.clone());
                }
            }
        }
    }
    pub fn to_json(&self) -> Value {
        let mut m = Map::new();
        for (k, v) in &self.n {
            m.insert(k.clone(), json!(v));
        }
        let mut sets = Map::new();
        for (k, s) in &self.sets {
            sets.insert(k.clone(), json!(s.iter().collect::<Vec<_>>()));
        }
        json!({"n": m, "sets": sets})
    }
}

#[derive(Clone, Debug)]
pub struct CaseOut {
    pub verdict: Verdict,
    pub nontrivial: bool,
    pub fp: String,
    pub obs: Tally,
    pub viols: Vec<Violation>,
    pub note: Option<String>,
}

impl CaseOut {
    pub fn new() -> Self {
        CaseOut {
            verdict: Verdict::Held,
            nontrivial: false,
            fp: String::new(),
            obs: Tally::default(),
            viols: vec![],
            note: None,
        }
    }
    pub fn violate(&mut self, sig: Value, what: impl Into<String>, detail: Value) {
        self.verdict = Verdict::Violated;
        if self.viols.len() < 8 {
            self.viols.push(Violation {
                sig,
                what: what.into(),
                detail,
            });
        } else {
            self.obs.inc("violations_not_listed");
        }
    }
    pub fn inconclusive(&mut self, why: impl Into<String>) {
        if self.verdict == Verdict::Held {
            self.verdict = Verdict::Inconclusive;
        }
        self.note = Some(why.into());
    }
    /// A panic inside library code on an input the property covers.
    pub fn violate_panic(&mut self, prop: &str, step: &str, class: &str, p: &PanicInfo) {
        if p.in_harness() {
            self.inconclusive(format!("harness panic at {}:{}: {}", p.file, p.line, p.msg));
            return;
        }
        self.violate(
            json!({"kind": "panic", "site": p.site(), "message": p.norm_msg(), "step": step, "class": class, "profile": profile()}),
            format!("{prop}: panic during {step} at {}:{}: {}", p.site(), p.line, util::truncate(&p.msg, 200)),
            p.to_json(),
        );
    }
    pub fn to_json(&self, k: u64) -> Value {
        json!({
            "t": "end", "k": k,
            "verdict": self.verdict.as_str(),
            "nontrivial": self.nontrivial,
            "fp": self.fp,
            "obs": self.obs.to_json(),
            "viols": self.viols.iter().map(|v| json!({"sig": v.sig, "what": v.what, "detail": v.detail})).collect::<Vec<_>>(),
            "note": self.note,
        })
    }
}

impl Default for CaseOut {
    fn default() -> Self {
        Self::new()
    }
}

pub fn profile() -> &'static str {
    if cfg!(debug_assertions) {
        "debug"
    } else {
        "release"
    }
}

#[derive(Clone, Copy, PartialEq, Eq, Debug)]
pub enum Tier {
    Quick,
    Thorough,
}

impl Tier {
    pub fn parse(s: &str) -> Tier {
        if s == "thorough" {
            Tier::Thorough
        } else {
            Tier::Quick
        }
    }
    pub fn as_str(&self) -> &'static str {
        match self {
            Tier::Quick => "quick",
            Tier::Thorough => "thorough",
        }
    }
    pub fn pick<T>(&self, q: T, t: T) -> T {
        match self {
            Tier::Quick => q,
            Tier::Thorough => t,
        }
    }
}

pub struct Ctx {
    pub work: std::path::PathBuf,
    pub tier: Tier,
    pub seed: u64,
}

pub fn jstr<'a>(v: &'a Value, k: &str) -> &'a str {
    v.get(k).and_then(|x| x.as_str()).unwrap_or("")
}
pub fn ju64(v: &Value, k: &str) -> u64 {
    v.get(k).and_then(|x| x.as_u64()).unwrap_or(0)
}
pub fn ji64(v: &Value, k: &str) -> i64 {
    v.get(k).and_then(|x| x.as_i64()).unwrap_or(0)
}
pub fn jbool(v: &Value, k: &str) -> bool {
    v.get(k).and_then(|x| x.as_bool()).unwrap_or(false)
}
pub fn jarr<'a>(v: &'a Value, k: &str) -> &'a [Value] {
    v.get(k).and_then(|x| x.as_array()).map(|a| a.as_slice()).unwrap_or(&[])
}
