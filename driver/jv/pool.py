"""Run sharded batches of cases in worker processes; survive and classify worker deaths."""
import json, os, signal, subprocess, threading, time, queue
from .common import env, log, NCPU, mkwork, rmtree


class Case:
    __slots__ = ("k", "desc", "verdict", "nontrivial", "fp", "obs", "viols", "note", "fate", "profile", "stderr")

    def __init__(self, k, desc, profile):
        self.k = k
        self.desc = desc
        self.profile = profile
        self.verdict = None  # held | violated | inconclusive
        self.nontrivial = False
        self.fp = ""
        self.obs = {"n": {}, "sets": {}}
        self.viols = []
        self.note = None
        self.fate = None  # None = worker answered; else dict(kind=signal|exit|timeout, ...)
        self.stderr = ""


def signame(n):
    try:
        return signal.Signals(n).name
    except Exception:
        return f"SIG{n}"


class Shard(threading.Thread):
    """One worker process running cases from..to with a stride; restarted after each death."""

    def __init__(self, binary, prop, base_args, start, stop, stride, profile, timeout, work, out, wrapper=None, extra_env=None, ctl=None):
        super().__init__(daemon=True)
        self.ctl = ctl if ctl is not None else {"hangs": 0, "abort": threading.Event(), "max_hangs": 5}
        self.binary, self.prop, self.base_args = binary, prop, base_args
        self.next_k, self.stop, self.stride = start, stop, stride
        self.profile, self.timeout, self.work, self.out = profile, timeout, work, out
        self.wrapper = wrapper or []
        self.extra_env = extra_env
        self.deaths = 0

    def run(self):
        while self.next_k < self.stop:
            if self.ctl["abort"].is_set():
                # enough cases of this batch never terminated: the verdict is already decided, do not wait for the rest
                self.out.put(("error", f"batch cut short after {self.ctl['hangs']} non-terminating cases (remaining cases of this shard not run)"))
                return
            self.one_process()
            if self.deaths > 400:
                self.out.put(("error", f"shard gave up after {self.deaths} worker deaths"))
                return

    def one_process(self):
        cmd = self.wrapper + [self.binary, "run", self.prop, "--from", str(self.next_k), "--to", str(self.stop),
                              "--stride", str(self.stride), "--work", self.work] + self.base_args
        errpath = os.path.join(self.work, f"stderr-{self.next_k}-{threading.get_ident()}.txt")
        with open(errpath, "wb") as errf:
            p = subprocess.Popen(cmd, stdout=subprocess.PIPE, stderr=errf, env=env(self.extra_env), cwd=self.work,
                                 start_new_session=True)
            current = None
            last = time.time()
            lines = queue.Queue()

            def reader():
                for raw in p.stdout:
                    lines.put(raw)
                lines.put(None)

            t = threading.Thread(target=reader, daemon=True)
            t.start()
            timed_out = False
            done = False
            while True:
                try:
                    raw = lines.get(timeout=1.0)
                except queue.Empty:
                    if time.time() - last > self.timeout:
                        timed_out = True
                        try:
                            os.killpg(p.pid, signal.SIGKILL)
                        except Exception:
                            p.kill()
                        break
                    continue
                if raw is None:
                    break
                last = time.time()
                try:
                    v = json.loads(raw)
                except Exception:
                    continue
                t_ = v.get("t")
                if t_ == "begin":
                    current = Case(v["k"], v.get("case"), self.profile)
                elif t_ == "end" and current is not None and v.get("k") == current.k:
                    current.verdict = v.get("verdict")
                    current.nontrivial = bool(v.get("nontrivial"))
                    current.fp = v.get("fp", "")
                    current.obs = v.get("obs") or current.obs
                    current.viols = v.get("viols") or []
                    current.note = v.get("note")
                    self.out.put(("case", current))
                    self.next_k = current.k + self.stride
                    current = None
                elif t_ == "hang" and current is not None:
                    # the worker's own watchdog fired: what it saw of its threads just before giving up
                    current.obs = dict(current.obs or {})
                    current.note = json.dumps({"all_asleep": bool(v.get("all_asleep")), "threads": v.get("threads"), "cpu_ticks_in_1500ms": v.get("cpu_ticks_in_1500ms")})
                elif t_ == "done":
                    done = True
            rc = p.wait()
        try:
            with open(errpath, "r", errors="replace") as f:
                err = f.read()[-6000:]
        except Exception:
            err = ""
        try:
            os.unlink(errpath)
        except Exception:
            pass
        if done and current is None and rc == 0:
            self.next_k = self.stop
            return
        # the worker died (or was killed) while handling `current`
        self.deaths += 1
        if current is None:
            # died between cases or before the first one: harness-level problem
            self.out.put(("error", f"worker ended rc={rc} outside a case (next_k={self.next_k}); stderr: {err[-400:]}"))
            self.next_k += self.stride
            return
        if timed_out or rc == 3:
            self.ctl["hangs"] += 1
            if self.ctl["hangs"] >= self.ctl["max_hangs"]:
                self.ctl["abort"].set()
        if timed_out:
            current.fate = {"kind": "timeout", "after_s": self.timeout}
        elif rc < 0:
            current.fate = {"kind": "signal", "signal": signame(-rc)}
        else:
            current.fate = {"kind": "exit", "code": rc}
        current.stderr = err
        self.out.put(("case", current))
        self.next_k = current.k + self.stride


def run_batch(binary, prop, tier, seed, profile, total, jobs=None, timeout=300, extra_args=None, wrapper=None,
              extra_env=None, on_case=None, first=0):
    """Run cases first..total of `prop` on `jobs` worker processes. Returns (cases, errors)."""
    jobs = max(1, min(jobs or NCPU, total - first if total > first else 1))
    work = mkwork(f"{prop}-{profile}")
    out = queue.Queue()
    base = ["--seed", str(seed), "--tier", tier] + (extra_args or [])
    ctl = {"hangs": 0, "abort": threading.Event(), "max_hangs": 5}
    shards = [Shard(binary, prop, base, first + i, total, jobs, profile, timeout, work, out, wrapper, extra_env, ctl)
              for i in range(jobs)]
    for s in shards:
        s.start()
    cases, errors = [], []
    alive = True
    while alive or not out.empty():
        alive = any(s.is_alive() for s in shards)
        try:
            kind, payload = out.get(timeout=0.2)
        except queue.Empty:
            continue
        if kind == "case":
            cases.append(payload)
            if on_case:
                on_case(payload)
        else:
            errors.append(payload)
    rmtree(work)
    cases.sort(key=lambda c: c.k)
    return cases, errors


def plan(binary, prop, tier):
    p = subprocess.run([binary, "plan", prop, "--tier", tier], stdout=subprocess.PIPE, stderr=subprocess.PIPE, text=True,
                       env=env())
    return int(p.stdout.strip() or 0)
