"""Aggregation of case results into verdict lines, replay files and the evidence file."""
import json, os, time
from . import findings
from .common import EVIDENCE, REPLAYS, VERIF, log, shorten


def merge_tally(dst, src):
    for k, v in (src.get("n") or {}).items():
        if k.startswith("max:"):
            dst["n"][k] = max(dst["n"].get(k, 0), v)
        else:
            dst["n"][k] = dst["n"].get(k, 0) + v
    for k, s in (src.get("sets") or {}).items():
        d = dst["sets"].setdefault(k, set())
        if len(d) < 20000:
            d.update(s)


class Report:
    def __init__(self, prop, tier, seed, level, rule, assumptions=None):
        self.prop, self.tier, self.seed, self.level, self.rule = prop, tier, seed, level, rule
        self.assumptions = assumptions or []
        self.t0 = time.time()
        self.evaluations = 0
        self.inconclusive = 0
        self.fps = set()
        self.tally = {"n": {}, "sets": {}}
        self.samples = []
        self.violations = []  # dicts: sig, what, detail, case, profile
        self.errors = []
        self.extra = {}
        self.exhaustive = None
        self.known = findings.load()
        self.inconclusive_notes = []

    # ---- feeding
    def note(self, key, value):
        self.extra[key] = value

    def obs_inc(self, k, n=1):
        self.tally["n"][k] = self.tally["n"].get(k, 0) + n

    def obs_set(self, k, member):
        self.tally["sets"].setdefault(k, set()).add(member)

    def sample(self, desc):
        if len(self.samples) < 5:
            self.samples.append(shorten(desc))

    def add_violation(self, sig, what, detail=None, case=None, profile=None):
        self.violations.append({"sig": sig, "what": what, "detail": detail or {}, "case": case, "profile": profile})

    def add_cases(self, cases, crash_is_violation=True, crash_sig=None, on_crash=None, hang_confirm=None):
        """Fold worker case records. A worker death inside a case is a violation of kind crash
        (abort / signal) for properties whose statement forbids it, a timeout is inconclusive
        unless the property's own hang procedure decides otherwise."""
        for c in cases:
            merge_tally(self.tally, c.obs)
            if c.fate is not None:
                kind = c.fate["kind"]
                if on_crash == "held":
                    # the worker died: for this property that is "no success", the crash itself is another property's subject
                    self.evaluations += 1
                    self.obs_inc("cases_where_the_worker_crashed_or_hung")
                    if c.fp:
                        self.fps.add(c.fp or f"crash-{c.k}")
                    continue
                if hang_confirm is not None and (kind == "timeout" or (kind == "exit" and c.fate.get("code") == 3)):
                    verdict = hang_confirm(c)
                    insitu = {}
                    try:
                        insitu = json.loads(c.note) if c.note else {}
                    except Exception:
                        insitu = {}
                    if verdict is None and insitu.get("all_asleep") and insitu.get("cpu_ticks_in_1500ms") == 0 and (insitu.get("threads") or 0) >= 1:
                        # not reproduced when re-run alone (a hang that depends on an interleaving), but the stuck execution
                        # itself showed every thread asleep and no CPU progress at all when its watchdog fired
                        d = c.desc or {}
                        sig = {"kind": "hang", "frame": "(every thread asleep, no CPU progress; seen in the original execution only)", "cpu": "idle", "profile": c.profile}
                        self.evaluations += 1
                        self.add_violation(sig, f"{self.prop}: the case did not terminate: when its watchdog fired all {insitu.get('threads')} threads were asleep "
                                           f"and none had used any CPU time for 1.5 s (the hang did not show again when the case was re-run alone)", {"in_situ": insitu}, d, c.profile)
                    elif verdict is None:
                        self.inconclusive += 1
                        self.inconclusive_notes.append(f"case {c.k}: watchdog fired, hang not confirmed ({c.note})")
                    else:
                        self.evaluations += 1
                        self.add_violation(verdict["sig"], verdict["what"], verdict.get("detail"), c.desc, c.profile)
                    continue
                if kind == "timeout" or (kind == "exit" and c.fate.get("code") == 3):
                    # the driver's or the worker's own watchdog: never a verdict by itself (a loaded machine, a sanitizer build)
                    self.inconclusive += 1
                    self.inconclusive_notes.append(f"case {c.k}: watchdog expired ({c.fate}; {c.note})")
                    continue
                if not crash_is_violation:
                    self.inconclusive += 1
                    self.inconclusive_notes.append(f"case {c.k}: worker died {c.fate}")
                    continue
                panic = first_panic(c.stderr)
                sig = {"kind": "crash", "fate": c.fate.get("signal") or f"exit{c.fate.get('code')}",
                       "site": panic.get("site"), "message": panic.get("msg"), "profile": c.profile}
                if crash_sig:
                    sig.update(crash_sig(c))
                self.evaluations += 1
                self.add_violation(sig, f"{self.prop}: worker process died ({c.fate}) while running the case; "
                                   f"first panic: {panic.get('raw', 'none')}", {"stderr_tail": c.stderr[-1500:]},
                                   c.desc, c.profile)
                continue
            if c.verdict == "inconclusive":
                self.inconclusive += 1
                if c.note:
                    self.inconclusive_notes.append(f"case {c.k}: {c.note}")
                continue
            self.evaluations += 1
            if c.nontrivial and c.fp:
                self.fps.add(c.fp)
            self.sample_case(c)
            for v in c.viols:
                self.add_violation(v["sig"], v["what"], v.get("detail"), c.desc, c.profile)

    def sample_case(self, c):
        if len(self.samples) < 5 and c.nontrivial:
            self.samples.append(shorten(c.desc))

    # ---- finishing
    def finish(self):
        wall = time.time() - self.t0
        os.makedirs(EVIDENCE, exist_ok=True)
        new, known_hits = [], {}
        for v in self.violations:
            e = findings.find(self.known, self.prop, v["sig"])
            if e is not None:
                known_hits.setdefault(e.get("id") or json.dumps(e["signature"], sort_keys=True), (e, 0))
                ent, n = known_hits[e.get("id") or json.dumps(e["signature"], sort_keys=True)]
                known_hits[e.get("id") or json.dumps(e["signature"], sort_keys=True)] = (ent, n + 1)
            else:
                new.append(v)
        for key, (e, n) in sorted(known_hits.items()):
            log(f"KNOWN-FINDING: property={self.prop} {e.get('what', key)} [{n} occurrence(s) this run]")
        # replay files for new violations (deduplicated by signature; at most 10 files)
        printed = 0
        seen = set()
        os.makedirs(os.path.join(REPLAYS, self.prop), exist_ok=True)
        for v in new:
            key = json.dumps(v["sig"], sort_keys=True)
            if key in seen:
                continue
            seen.add(key)
            if printed >= 10:
                continue
            path = os.path.join(REPLAYS, self.prop, f"{self.tier}-{self.seed}-{printed}.json")
            with open(path, "w") as f:
                json.dump({"property": self.prop, "tier": self.tier, "seed": self.seed, "profile": v.get("profile"),
                           "case": v.get("case"), "signature": v["sig"], "what": v["what"], "detail": v.get("detail")},
                          f, indent=1, sort_keys=True)
            log(f"  what: {v['what'][:600]}")
            log(f"  signature: {key[:600]}")
            log(f"VIOLATION property={self.prop} replay={path}")
            printed += 1
        try:
            from .common import WORK
            os.makedirs(WORK, exist_ok=True)
            agg = {}
            for v in new:
                key = json.dumps(v["sig"], sort_keys=True)
                a = agg.setdefault(key, {"sig": v["sig"], "count": 0, "what": v["what"][:300]})
                a["count"] += 1
            with open(os.path.join(WORK, f"last_violations_{self.prop}.json"), "w") as f:
                json.dump(sorted(agg.values(), key=lambda a: -a["count"]), f, indent=1)
        except Exception:
            pass
        distinct = len(self.fps)
        n = {k: v for k, v in sorted(self.tally["n"].items())}
        sets = {k: {"count": len(s), "first": sorted(s)[:12]} for k, s in sorted(self.tally["sets"].items())}
        cov = {
            "evaluations": self.evaluations,
            "distinct_nontrivial": distinct,
            "rule": self.rule,
            "samples": self.samples[:5],
            "observed": {"counts": n, "sets": sets, **self.extra},
            "inconclusive": self.inconclusive,
            "inconclusive_notes": self.inconclusive_notes[:10],
            "known_findings_hit": sorted(known_hits.keys()),
            "harness_errors": self.errors[:10],
        }
        if self.exhaustive is not None:
            cov["exhaustive"] = bool(self.exhaustive)
        ev = {"property_id": self.prop, "tier": self.tier, "seed": self.seed, "level": self.level, "coverage": cov,
              "assumptions": self.assumptions, "wall_s": round(wall, 2), "violations": len(new)}
        status = 0
        if new:
            status = 1
        elif self.evaluations == 0 or distinct < 2 or not self.samples:
            status = 2
        if status != 2:
            with open(os.path.join(EVIDENCE, f"{self.prop}.json"), "w") as f:
                json.dump(ev, f, indent=1, sort_keys=True)
        log(f"[{self.prop}] tier={self.tier} seed={self.seed} evaluations={self.evaluations} distinct_nontrivial={distinct} "
            f"inconclusive={self.inconclusive} new_violations={len(seen)} known_findings={len(known_hits)} "
            f"harness_errors={len(self.errors)} wall={wall:.1f}s")
        for e in self.errors[:5]:
            log(f"  harness error: {str(e)[:300]}")
        if status == 2:
            log(f"[{self.prop}] HARNESS ERROR: the monitors observed nothing usable (evaluations={self.evaluations}, "
                f"distinct_nontrivial={distinct}); no verdict")
        return status


def first_panic(stderr):
    for line in (stderr or "").splitlines():
        if line.startswith("PANIC site="):
            out = {"raw": line[:400]}
            try:
                rest = line[len("PANIC "):]
                site = rest.split(" ", 1)[0].split("=", 1)[1]
                msg = rest.split(" msg=", 1)[1] if " msg=" in rest else ""
                out["site"] = site
                out["msg"] = normalize(msg)
            except Exception:
                pass
            return out
    return {}


def normalize(msg):
    import re
    return re.sub(r"\d+", "N", msg)[:160]
