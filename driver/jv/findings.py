"""known_findings.json: genuine defects recorded rather than repaired (status open), and repaired ones (status fixed).
Read-only at run time. An open entry matches a violation when every key of its signature equals
the violation's signature value (a list value means any-of). Fixed entries suppress nothing."""
import json, os
from .common import FINDINGS


def load():
    if not os.path.exists(FINDINGS):
        return []
    with open(FINDINGS) as f:
        return json.load(f).get("findings", [])


def matches(entry, prop, sig):
    if entry.get("status") != "open" or entry.get("property") != prop:
        return False
    for k, want in (entry.get("signature") or {}).items():
        got = sig.get(k)
        if isinstance(want, list):
            if got not in want:
                return False
        elif got != want:
            return False
    return True


def find(entries, prop, sig):
    for e in entries:
        if matches(e, prop, sig):
            return e
    return None
