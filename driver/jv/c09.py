"""C09: creation is all-or-nothing at the destination path — fault injection on the creating process."""
import json, os, resource, shutil, signal, subprocess, time, random
from concurrent.futures import ThreadPoolExecutor
from . import build as B
from .common import *
from .report import Report

PKGS = ["onefile", "twofiles", "noconcat"]
PROFILES = ["content-larger", "directory-larger"]
# the system calls through which bytes reach the output files (std::io::copy between files uses copy_file_range / sendfile)
WSET = "write,pwrite64,writev,copy_file_range,sendfile"


def run_child(binary, casefile, d, limit=None, ignore_xfsz=False, wrapper=None, kill_after=None, transient=False, name="c.jbk"):
    """ignore_xfsz: every write past the limit returns EFBIG; transient: only the first one does (the child's SIGXFSZ handler lifts the
    soft limit, so the hard limit is left unlimited here)."""
    mode = "2" if transient else ("1" if ignore_xfsz else "0")
    cmd = (wrapper or []) + [binary, "c09-child", "--case-file", casefile, "--dir", d, "--name", name, "--ignore-xfsz", mode]

    def pre():
        os.setsid()
        if limit is not None:
            resource.setrlimit(resource.RLIMIT_FSIZE, (limit, resource.RLIM_INFINITY if transient else limit))

    p = subprocess.Popen(cmd, stdout=subprocess.DEVNULL, stderr=subprocess.PIPE, preexec_fn=pre, env=env(), cwd=d)
    if kill_after is not None:
        time.sleep(kill_after)
        try:
            os.killpg(p.pid, signal.SIGKILL)
        except Exception:
            pass
    try:
        _, err = p.communicate(timeout=120)
    except subprocess.TimeoutExpired:
        os.killpg(p.pid, signal.SIGKILL)
        p.wait()
        return "timeout", ""
    return p.returncode, (err or b"").decode(errors="replace")[-500:]


def inspect(binary, casefile, d, olddir, name="c.jbk"):
    dest = os.path.join(d, name)
    listing = sorted(os.listdir(d))
    if not os.path.exists(dest):
        return {"state": "absent", "listing": listing}
    cmd = [binary, "c09-inspect", "--case-file", casefile, "--dest", dest]
    if olddir:
        cmd += ["--old-dir", olddir]
    p = subprocess.run(cmd, stdout=subprocess.PIPE, stderr=subprocess.PIPE, text=True, env=env())
    try:
        return json.loads(p.stdout.strip().splitlines()[-1])
    except Exception:
        return {"state": "inspect-failed", "why": f"rc={p.returncode} {p.stderr[-300:]}", "listing": listing}


def run(tier, seed):
    rep = Report("C09", tier, seed, "fault_enumeration",
                 "crash points = for packaging in {OneFile, TwoFiles, NoConcat} x size profile {content file larger, directory file larger} x "
                 "variant {process death by SIGXFSZ, EFBIG error return with SIGXFSZ ignored, transient = only the first write past N fails with EFBIG (the "
                 "child's SIGXFSZ handler lifts the limit)} x destination {empty, holding a previous complete "
                 "container}: RLIMIT_FSIZE = N for N over 0..max output file size (thorough: every N; quick: every N of one configuration "
                 "sampled every 7th / 41st byte offset plus boundary offsets), plus SIGKILL on entry to the K-th rename syscall via strace injection (every K) and SIGKILL after "
                 "seeded delays, plus faults addressed by write call (strace injection on write/pwrite64/writev/copy_file_range/sendfile, counted per thread): the "
                 "K-th call fails once with EIO, fails from then on, or the process is killed on entering it, for every K (quick: every K for two configurations, "
                 "every 4th elsewhere). Oracle: afterwards the destination is absent (only when nothing was there before), byte-identical to the previous complete file, or a complete "
                 "container (Container::new + check() true + every referenced pack file present and decoded by the independent decoder to "
                 "exactly the model); the un-injected strace log must show the entry point renamed last. Non-trivial = the child did not "
                 "complete. Distinct = (packaging, profile, variant, pre-existing, N|K|delay).",
                 ["crash = process termination or an I/O error return; power loss / fsync ordering not modelled",
                  "leftover .tmp* files are allowed", "inputs are in-memory so that RLIMIT_FSIZE only hits output files"])
    binary = B.build("release")
    work = mkwork("c09")
    rng = random.Random(seed)
    jobs = []
    refs = {}
    try:
        for pkg in PKGS:
            for prof in PROFILES:
                tag = f"{pkg}-{prof}"
                casefile = os.path.join(work, f"case-{tag}.json")
                oldcase = os.path.join(work, f"old-{tag}.json")
                # the container that is at the destination before: same packaging, except for the one-file packaging, where it is a
                # container of several files (a one-file creation has no business with the files next to its destination)
                old_pkg = pkg if pkg != "onefile" else ("twofiles" if prof == PROFILES[0] else "noconcat")
                for path, s, pk in ((casefile, seed, pkg), (oldcase, seed + 7919, old_pkg)):
                    out = subprocess.run([binary, "c09-case", "--seed", str(s), "--profile", prof, "--pkg", pk], stdout=subprocess.PIPE,
                                         text=True, env=env()).stdout
                    with open(path, "w") as f:
                        f.write(out)
                refdir = os.path.join(work, f"ref-{tag}")
                olddir = os.path.join(work, f"olddir-{tag}")
                for d, cf in ((refdir, casefile), (olddir, oldcase)):
                    os.makedirs(d)
                    rc, err = run_child(binary, cf, d)
                    shutil.rmtree(os.path.join(d, "inputs"), ignore_errors=True)
                    if rc != 0:
                        rep.errors.append(f"reference creation {tag} failed rc={rc} {err}")
                ins = inspect(binary, casefile, refdir, None)
                if ins.get("state") != "new-complete":
                    # an uninterrupted creation must of course be complete
                    rep.evaluations += 1
                    rep.add_violation({"kind": "uninterrupted-not-complete", "packaging": pkg}, f"C09: uninterrupted creation ({tag}) does not "
                                      f"leave a complete container: {ins}", {}, {"pkg": pkg, "profile": prof}, "release")
                    continue
                # destination names whose extension is one the creator gives to the files it makes next to the destination
                for odd in ("c.jbkd", "c.jbkc", "c.jbkm", "c"):
                    d2 = os.path.join(work, f"ref-{tag}-{odd}")
                    os.makedirs(d2)
                    rc2, err2 = run_child(binary, casefile, d2, name=odd)
                    shutil.rmtree(os.path.join(d2, "inputs"), ignore_errors=True)
                    ins2 = inspect(binary, casefile, d2, None, name=odd)
                    rep.evaluations += 1
                    rep.fps.add(f"name-{tag}-{odd}")
                    rep.obs_inc("uninterrupted_creations_with_other_destination_names")
                    if rc2 == 0 and ins2.get("state") != "new-complete":
                        rep.add_violation({"kind": "uninterrupted-not-complete", "packaging": pkg, "name": odd}, f"C09: uninterrupted creation ({tag}) at a destination "
                                          f"named {odd} does not leave a complete container: {ins2}", {}, {"pkg": pkg, "profile": prof, "name": odd}, "release")
                    elif rc2 != 0:
                        rep.obs_inc("creations_refused_for_a_destination_name")
                sizes = {n: os.path.getsize(os.path.join(refdir, n)) for n in os.listdir(refdir) if os.path.isfile(os.path.join(refdir, n))}
                maxsize = max(sizes.values())
                refs[tag] = {"sizes": sizes, "files": len(sizes)}
                rep.obs_set("output_files", f"{tag}:{sorted(sizes.items())}")
                # rename order of an uninterrupted run
                st = os.path.join(work, f"strace-{tag}.log")
                d = os.path.join(work, f"strace-{tag}")
                os.makedirs(d)
                run_child(binary, casefile, d, wrapper=["strace", "-f", "-o", st, "-e", "trace=rename,renameat,renameat2,link,linkat," + WSET])
                renames = []
                writes_per_thread = {}
                try:
                    for line in open(st):
                        if "rename" in line and "= 0" in line:
                            parts = line.split('"')
                            if len(parts) >= 4:
                                renames.append(os.path.basename(parts[3]))
                        else:
                            f = line.split(None, 2)
                            if len(f) >= 2 and f[1].split("(")[0] in WSET.split(","):
                                writes_per_thread[f[0]] = writes_per_thread.get(f[0], 0) + 1
                except Exception:
                    pass
                nwr = max(writes_per_thread.values()) if writes_per_thread else 0
                rep.obs_set("write_calls_of_the_busiest_thread", f"{tag}:{nwr}")
                rep.obs_set("rename_order", f"{tag}:{renames}")
                if renames:
                    rep.evaluations += 1
                    rep.fps.add(f"order-{tag}")
                    if renames[-1] != "c.jbk":
                        rep.add_violation({"kind": "entry-point-not-last", "packaging": pkg}, f"C09: the entry point is moved into place before "
                                          f"a pack file ({tag}): rename order {renames}", {}, {"pkg": pkg, "profile": prof}, "release")
                nren = max(1, len(renames))
                # enumerate crash points
                full = tier == "thorough"
                for variant in ("death", "error", "transient"):
                    for pre in (False, True):
                        step = 1 if full else (7 if (pkg == "twofiles" and prof == "content-larger" and variant == "death") else 41)
                        if variant == "transient" and not full:
                            # one failing write, every later one succeeds: the writes of the last buffered blocks matter most
                            step = 3 if (pkg == "onefile" and prof == "content-larger" and not pre) else 23
                        if tier == "quick" and pre and variant in ("error", "transient") and prof == "directory-larger":
                            continue
                        ns = list(range(0, maxsize + 2, step))
                        if step > 1:
                            ns += [rng.randrange(0, maxsize + 1) for _ in range(6)] + [0, 1, 63, 64, 65, 127, 128, maxsize - 1, maxsize]
                        for n in sorted(set(ns)):
                            jobs.append(dict(tag=tag, pkg=pkg, prof=prof, casefile=casefile, olddir=olddir if pre else None, variant=variant, mode="fsize", n=n))
                # faults addressed by write CALL rather than by byte offset (strace injection, counted per thread): the K-th
                # write-family call fails once with EIO, fails from then on, or the process is killed on entering it. Unlike a file
                # size limit this reaches the writes that follow complete files (a final copy, the last file of several).
                for pre in (False, True):
                    dense = full or (pkg == "noconcat" and prof == "content-larger") or (pkg == "onefile" and prof == "content-larger" and pre)
                    for k in range(1, nwr + 2, 1 if dense else 4):
                        for variant in ("eio-once", "eio-from", "kill"):
                            jobs.append(dict(tag=tag, pkg=pkg, prof=prof, casefile=casefile, olddir=olddir if pre else None, variant=variant, mode="wcall", n=k))
                for pre in (False, True):
                    for k in range(1, nren + 2):
                        jobs.append(dict(tag=tag, pkg=pkg, prof=prof, casefile=casefile, olddir=olddir if pre else None, variant="sigkill", mode="rename", n=k))
                    for _ in range(6 if tier == "quick" else 40):
                        jobs.append(dict(tag=tag, pkg=pkg, prof=prof, casefile=casefile, olddir=olddir if pre else None, variant="sigkill", mode="delay",
                                         n=round(rng.choice([0.0005, 0.001, 0.002, 0.004, 0.008, 0.015, 0.03]) * rng.uniform(0.5, 1.5), 5)))

        counter = [0]

        def one(job):
            counter[0] += 1
            d = os.path.join(work, f"run-{counter[0]}-{random.getrandbits(32)}")
            os.makedirs(d)
            try:
                if job["olddir"]:
                    for n in os.listdir(job["olddir"]):
                        shutil.copy(os.path.join(job["olddir"], n), os.path.join(d, n))
                if job["mode"] == "fsize":
                    rc, err = run_child(binary, job["casefile"], d, limit=job["n"], ignore_xfsz=(job["variant"] == "error"), transient=(job["variant"] == "transient"))
                elif job["mode"] == "wcall":
                    what = {"eio-once": f"error=EIO:when={job['n']}", "eio-from": f"error=EIO:when={job['n']}+", "kill": f"signal=SIGKILL:when={job['n']}"}[job["variant"]]
                    rc, err = run_child(binary, job["casefile"], d, wrapper=["strace", "-f", "-o", "/dev/null", "-e", "trace=" + WSET, "-e", f"inject={WSET}:{what}"])
                elif job["mode"] == "rename":
                    rc, err = run_child(binary, job["casefile"], d, wrapper=["strace", "-f", "-o", "/dev/null", "-e", "trace=rename,renameat,renameat2",
                                                                             "-e", f"inject=rename,renameat,renameat2:signal=SIGKILL:when={job['n']}"])
                else:
                    rc, err = run_child(binary, job["casefile"], d, kill_after=job["n"])
                shutil.rmtree(os.path.join(d, "inputs"), ignore_errors=True)
                ins = inspect(binary, job["casefile"], d, job["olddir"])
                return job, rc, err, ins
            finally:
                shutil.rmtree(d, ignore_errors=True)

        with ThreadPoolExecutor(max_workers=NCPU) as ex:
            for job, rc, err, ins in ex.map(one, jobs):
                desc = {k: job[k] for k in ("pkg", "prof", "variant", "mode", "n")}
                desc["preexisting"] = bool(job["olddir"])
                if rc == "timeout":
                    rep.inconclusive += 1
                    rep.inconclusive_notes.append(f"child timed out: {desc}")
                    continue
                rep.evaluations += 1
                state = ins.get("state")
                completed = rc == 0
                rep.obs_inc(f"child.{'completed' if completed else 'interrupted'}.{job['variant']}")
                rep.obs_inc(f"state.{state}")
                if ins.get("tmp_leftovers"):
                    rep.obs_inc("runs_leaving_tmp_files")
                if ins.get("old_entry_next_to_replaced_pack"):
                    rep.obs_inc("old_entry_point_next_to_replaced_pack_file(tallied, not judged)")
                if not completed:
                    rep.fps.add(json.dumps(desc, sort_keys=True))
                    if len(rep.samples) < 5 and rep.evaluations % 97 == 3:
                        rep.samples.append({**desc, "exit": rc, "state_after": state, "listing": ins.get("listing")})
                    rep.obs_inc(f"crash_points_hit.{job['pkg']}.{job['mode']}")
                ok = state in ("absent", "old", "new-complete") if not completed else state == "new-complete"
                if state == "old" and not job["olddir"]:
                    ok = False
                if state == "absent" and job["olddir"]:
                    # all-or-nothing: a creation that did not go through leaves the previous complete container where it was
                    ok = False
                if completed and job["variant"] in ("error", "transient", "eio-once", "eio-from") and state != "new-complete":
                    ok = False
                lost = ins.get("old_entry_next_to_replaced_pack") or []
                if state == "old" and job["pkg"] == "onefile" and lost:
                    # the previous container's entry point is untouched but files it refers to were removed or replaced by a
                    # creation that writes one file only: the previous container is not complete any more
                    ok = False
                    ins["why"] = f"the previous container lost {lost}"
                    state = "old-incomplete"
                if state == "old" and job["pkg"] == "onefile":
                    rep.obs_inc("previous_multi_file_container_intact_after_failed_one_file_creation")
                if not ok:
                    why = ins.get("why", "")
                    import re
                    sig = {"kind": "destination-" + str(state), "packaging": job["pkg"], "variant": job["variant"], "mode": job["mode"],
                           "preexisting": bool(job["olddir"]), "why": re.sub(r"\d+", "N", why)[:100]}
                    rep.add_violation(sig, f"C09: after an interrupted creation ({desc}, child exit {rc}) the destination is neither absent, nor "
                                      f"the previous file, nor a complete container: {state}: {why}; directory: {ins.get('listing')}",
                                      {"stderr": err}, desc, "release")
        if not rep.samples:
            rep.samples.append({"note": "no interrupted run sampled"})
    finally:
        rmtree(work)
    rep.exhaustive = tier == "thorough"
    rep.note("exhaustive_scope", "thorough: every RLIMIT_FSIZE value 0..max output size for each packaging x profile x variant x pre-existing; every rename index")
    return rep.finish()
