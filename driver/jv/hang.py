"""Confirmation of a suspected hang: re-run the single case alone with a long budget, sample its CPU
time twice and take a gdb stack dump. Only 'still running after the long budget AND a thread is parked
in a wait (or the process keeps spinning) with library frames on the stack' is a hang; anything else
is inconclusive (returns None)."""
import json, os, re, signal, subprocess, tempfile, time
from .common import env, mkwork, rmtree, log

_cache = {}


def cpu_ticks(pid):
    try:
        with open(f"/proc/{pid}/stat") as f:
            parts = f.read().rsplit(")", 1)[1].split()
        return int(parts[11]) + int(parts[12])
    except Exception:
        return None


def max_thread_ticks(pid):
    """CPU time (ticks) of the thread of the process that has used most"""
    best = 0
    try:
        for tid in os.listdir(f"/proc/{pid}/task"):
            try:
                with open(f"/proc/{pid}/task/{tid}/stat") as f:
                    parts = f.read().rsplit(")", 1)[1].split()
                best = max(best, int(parts[11]) + int(parts[12]))
            except Exception:
                pass
    except Exception:
        pass
    return best


SPIN_TICKS = 6000  # one thread having burnt 60 cpu-seconds: no case comes near that, however loaded the machine


def gdb_stack(pid, timeout=120):
    try:
        p = subprocess.run(["gdb", "-p", str(pid), "-batch", "-ex", "set pagination off", "-ex", "thread apply all bt 14"],
                           stdout=subprocess.PIPE, stderr=subprocess.DEVNULL, text=True, timeout=timeout)
        return p.stdout
    except Exception as e:
        return f"(gdb failed: {e})"


def blocked_frame(stack):
    """first jubako frame of a thread that sits in a futex/condvar wait; else first jubako frame at all"""
    threads = re.split(r"\nThread \d+ ", "\n" + stack)
    best = None
    for t in threads:
        waiting = bool(re.search(r"futex|pthread_cond|Condvar|syscall|__lll_lock_wait|park", t))
        m = re.search(r"(jubako::[A-Za-z0-9_:<>]+)", t)
        if m:
            name = re.sub(r"::h[0-9a-f]{16}$", "", m.group(1))
            name = re.sub(r"<[^>]*>", "<_>", name)
            if waiting:
                return name, True
            best = best or (name, False)
    return best or (None, False)


def confirm(binary, prop, case, key, budget=40, extra_sig=None):
    """returns None (not confirmed) or dict(sig, what, detail)"""
    if key in _cache:
        return _cache[key]
    work = mkwork("hang")
    cf = os.path.join(work, "case.json")
    with open(cf, "w") as f:
        json.dump({"case": case.desc}, f)
    p = subprocess.Popen([binary, "replay", prop, "--case-file", cf, "--work", work, "--seed", str((case.desc or {}).get("seed", 1))],
                         stdout=subprocess.DEVNULL, stderr=subprocess.DEVNULL, env=env(), start_new_session=True)
    t0 = time.time()
    result = None
    try:
        while time.time() - t0 < budget:
            if p.poll() is not None:
                break
            time.sleep(0.5)
        if p.poll() is None:
            c1 = cpu_ticks(p.pid)
            time.sleep(3)
            c2 = cpu_ticks(p.pid)
            spinning = c1 is not None and c2 is not None and (c2 - c1) >= 200  # >= 2 cpu-seconds in 3 s
            if c1 is not None and c2 is not None and not spinning and (c2 - c1) > 5:
                # the process is making CPU progress but slowly: the machine is loaded and the wall-clock budget says little.
                # Decide on CPU time instead: wait (bounded) until one of its threads has burnt SPIN_TICKS, or it ends.
                while p.poll() is None and time.time() - t0 < 6 * budget and max_thread_ticks(p.pid) < SPIN_TICKS:
                    time.sleep(1)
                spinning = p.poll() is None and max_thread_ticks(p.pid) >= SPIN_TICKS
                c1 = cpu_ticks(p.pid)
                time.sleep(3)
                c2 = cpu_ticks(p.pid)
            stack = gdb_stack(p.pid) if p.poll() is None else ""
            if stack.startswith("(gdb failed") and p.poll() is None:
                # a loaded machine: reading the symbols of a debug binary can take minutes; once more, with patience
                stack = gdb_stack(p.pid, timeout=360)
            still = p.poll() is None
            if still and c1 is not None and c2 is not None:
                frame, waiting = blocked_frame(stack)
                idle = (c2 - c1) <= 5
                if frame and (waiting or spinning or idle):
                    sig = {"kind": "hang", "frame": frame, "cpu": "spinning" if spinning else "idle", "profile": case.profile}
                    if extra_sig:
                        sig.update(extra_sig)
                    result = {"sig": sig,
                              "what": f"{prop}: the case does not terminate: still running after {int(time.time() - t0)}s alone, cpu delta {c2-c1} ticks in 3 s, "
                                      f"blocked in {frame}",
                              "detail": {"stack_excerpt": stack[-3000:]}}
    finally:
        try:
            os.killpg(p.pid, signal.SIGKILL)
        except Exception:
            pass
        p.wait()
        rmtree(work)
    _cache[key] = result
    return result
