"""Paths, environment, small helpers."""
import json, os, subprocess, sys, time, hashlib, shutil

VERIF = os.path.dirname(os.path.dirname(os.path.dirname(os.path.abspath(__file__))))
REPO = os.environ.get("JBK_REPO", "/repo")
HARNESS = os.path.join(VERIF, "harness")
WORK = os.path.join(VERIF, "work")
EVIDENCE = os.path.join(VERIF, "evidence")
REPLAYS = os.path.join(VERIF, "replays")
FINDINGS = os.path.join(VERIF, "known_findings.json")
NCPU = os.cpu_count() or 4


def env(extra=None):
    e = dict(os.environ)
    e["CARGO_NET_OFFLINE"] = "true"
    e.setdefault("RUST_BACKTRACE", "0")
    # never let a user-level RUSTFLAGS drop the hook cfg
    e.pop("RUSTFLAGS", None)
    if extra:
        e.update(extra)
    return e


def log(*a):
    print(*a, flush=True)


def seed_from_env(default=1):
    try:
        return int(os.environ.get("VERIF_SEED", default))
    except ValueError:
        return default


def sha(s):
    return hashlib.sha256(s.encode()).hexdigest()[:16]


def mkwork(tag):
    d = os.path.join(WORK, f"{tag}-{os.getpid()}-{int(time.time()*1000)%100000}")
    os.makedirs(d, exist_ok=True)
    return d


def rmtree(d):
    shutil.rmtree(d, ignore_errors=True)


def shorten(v, limit=1500):
    """Shorten a JSON value for samples."""
    s = json.dumps(v, sort_keys=True)
    if len(s) <= limit:
        return v
    if isinstance(v, dict):
        out = {}
        for k, x in v.items():
            if isinstance(x, list) and len(x) > 6:
                out[k] = x[:6] + [f"... {len(x)-6} more"]
            else:
                out[k] = x
        s2 = json.dumps(out, sort_keys=True)
        if len(s2) <= limit * 2:
            return out
    return {"truncated": s[:limit]}
