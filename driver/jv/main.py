import json, os, subprocess, sys, time
from . import build as B
from .common import *
from .pool import run_batch, plan
from .report import Report
from . import hang
from . import c09
from . import san
from . import c07

LEVELS = {}


def simple(prop, tier, seed, level, rule, profiles=("debug", "release"), timeout=150, assumptions=None, jobs=None,
           crash_is_violation=True, extra=None):
    rep = Report(prop, tier, seed, level, rule, assumptions)
    for profile in profiles:
        b = B.build(profile)
        total = plan(b, prop, tier)
        cases, errors = run_batch(b, prop, tier, seed, profile, total, jobs=jobs, timeout=timeout)
        rep.add_cases(cases, crash_is_violation=crash_is_violation)
        rep.errors += errors
        rep.obs_inc(f"cases_run.{profile}", len(cases))
    if extra:
        extra(rep)
    return rep.finish()


def asan_extra(prop, n):
    def f(rep):
        if rep.tier == "thorough":
            san.sanitizer_pass(rep, prop, "asan", "quick", rep.seed + 500, n)
    return f


def tsan_extra(prop, n):
    def f(rep):
        if rep.tier == "thorough":
            san.sanitizer_pass(rep, prop, "tsan", "quick", rep.seed + 500, n)
    return f


def asan_and_miri(prop, n):
    def f(rep):
        if rep.tier == "thorough":
            san.sanitizer_pass(rep, prop, "asan", "quick", rep.seed + 500, n)
            san.miri_rt_pass(rep, [rep.seed * 10 + i for i in range(6)])
    return f


def run_C01(tier, seed):
    return simple("C01", tier, seed, "exploration",
                  "cases = seeded insertion sequences x configuration (compression+level, adder, packaging); the first 14 indices "
                  "are fixed boundary shapes (empty pack, 4094..4097 and 8190/8200 tiny items, clusters closing on size, content > "
                  "cluster, offset-width boundaries, empty contents, dedup adder around 4 MiB incl. contents that are the "
                  "concatenation of two contents inserted one after the other, Detect around 6.0 bits, file "
                  "sub-ranges, packagings), the rest random mixes. Every address is read through region.stream() or (every third) the "
                  "owning conversion ByteStream::from(region), contents up to 100 KB also through get_slice. Non-trivial = at least one non-empty content and (>= 2 items or "
                  "a non-default hint/source). Distinct = hash(compression, level, packaging, adder, run-length sequence of "
                  "(length class, hint, source, dup)).",
                  assumptions=["expected bytes are regenerated from (case seed, call number) by the harness generator",
                               "the file system of /verif/work behaves (no injected I/O faults in this check)",
                               "thorough: the quick case set is also run under an AddressSanitizer build"], extra=asan_extra("C01", 64))


def run_C02(tier, seed):
    return simple("C02", tier, seed, "exploration",
                  "cases = seeded schemas (0..6 common properties, 0..4 variants of unequal size incl. empty ones, kinds uint/sint/"
                  "array(prefix 0..31, plain|indexed store, shared)/content address, constant and varying columns, values at every "
                  "byte-width boundary and both signs, arrays around the prefix length and the 255/256 length boundary) x entry "
                  "counts {0,1,2,255..257,..thousands} x 1..3 index windows x integers handed over as immediate values, deferred "
                  "words or a per-entry mix x zero or arbitrary free data (directory header, index free data and key), written to "
                  "a file or a memory cursor and read back through DirectoryPack/Index/AnyBuilder; every raw value is also read "
                  "through RawValue::get() and the typed accessors; indexes are also fetched by number, and half of the windows of a case "
                  "with free data give their first entry as an entry handle (deferred position); one limit case ends an indexed value "
                  "store of 16 875 distinct values on 1 125 duplicates of earlier values. Non-trivial = >= 1 entry and (>= 2 properties or a variant). Distinct = "
                  "hash(schema shape, column kinds and value classes, entry-count class, window shapes).",
                  assumptions=["values are derived from (case seed, store, column, entry number) by the harness generator",
                               "the expected final order of an unsorted store is the insertion order",
                               "thorough: 96 cases of the quick set are also run under an AddressSanitizer build (the readers of value "
                               "store offsets and cluster offsets fill vectors through set_len)"], extra=asan_extra("C02", 96))


def run_C03(tier, seed):
    return simple("C03", tier, seed, "exploration",
                  "cases = sorted stores with unique key tuples: array keys over small alphabets {00,ff}/{00,ff,a,b}/all bytes sharing "
                  "prefixes shorter, equal and longer than the inline prefix (every prefix 0..31 in thorough, {0,1,2,3,8,31} in quick), "
                  "plain and indexed stores, uint/sint keys (handed over as immediate values, deferred words or a mix; probes alternate between "
                  "the two forms), two-property keys, keys of 254..1024 bytes sharing all but their last bytes, 1..5000 keys, whole-store and "
                  "window indexes; every lookup also on EntryRange::from(&index) and, for one-property keys, through new_property_compare. Monitors: "
                  "read-back position = position in the model sorted with the reader's comparison; consecutive keys read back never "
                  "decrease; for every present key (sampled above 120/400) and generated absent neighbours, linear and binary "
                  "Range::find must both answer exactly the expected position / None. Cases 0..9 are the bounded-exhaustive part: "
                  "Range::find on EntryRange with an in-memory comparator over ALL 1013 strictly increasing sequences of length <= 8 over "
                  "10 symbols x every window x probes 0..10 x both modes (487 696 calls, oracle slice::binary_search). Non-trivial = >= 2 keys sharing a first byte "
                  "(arrays) or >= 2 integer keys. Distinct = hash(schema, prefix length, store kind, size class).",
                  assumptions=["key tuples are made unique by the generator (duplicates are outside the property's quantifier)",
                               "binary search is driven through a CompareTrait wrapper answering ordered()==true around the library's PropertyCompare"])


def run_C15(tier, seed):
    return simple("C15", tier, seed, "exploration",
                  "cases = one store of 2..12000 (thorough ..65537) entries with a unique id, 1..2 deferred reference properties bound "
                  "to other entries' handles (patterns next/prev/self/permutation/all-to-one/random, rotating with the case index), "
                  "unsorted or sorted on a distinct uint/sint/array key, optional variants carrying a reference, half of the cases with a reference "
                  "kept in a SIGNED column through a closure word; one case in twelve has two stores, a small one whose entries refer to entries "
                  "of a big one sorted in reverse insertion order, added before or after it; every stored reference "
                  "and every handle returned by add_entry is compared with the position at which the referenced entry is read back. "
                  "Non-trivial = a reference column and >= 2 entries. Distinct = hash(schema, pattern, sortedness, size class, windows).",
                  assumptions=["final positions are recomputed by the model: insertion order, or a stable sort on the unique key",
                               "thorough: the quick case set (incl. 12000-entry stores: rayon parallel sort and par_iter_mut index assignment) is also run under a ThreadSanitizer build"],
                  extra=tsan_extra("C15", 72))


def c14_corpus(rep):
    for profile in ("debug", "release"):
        b = B.build(profile)
        total = plan(b, "C14B", "quick")
        if total == 0:
            rep.errors.append("reference corpus missing (/verif/corpus)")
            continue
        cases, errors = run_batch(b, "C14B", "quick", 1, profile, total, timeout=120)
        rep.add_cases(cases)
        rep.errors += errors
        rep.obs_inc(f"corpus_entries_read.{profile}", len(cases))


def run_C14(tier, seed):
    return simple("C14", tier, seed, "exploration",
                  "part (b): every entry of the committed reference corpus /verif/corpus (12 logical containers x {entry point, concat'd file}: "
                  "4 codecs x 3 packagings, plain and indexed stores shared or not, inline prefixes 0/1/2/3/4/31, sorted and windowed indexes, "
                  "variants, constant columns, deferred references, an extra content pack; written by tools/corpusgen linked against the pinned "
                  "commit fc3306d, expectations = model dump cross-checked at generation time with the independent decoder and the pinned reader) "
                  "is read with the current reader in debug and release and must equal its expected.json item by item, and check() must be true. "
                  "part (a): every generated file (bare content packs from C01's generator, bare directory packs from the C02/C03/C15 "
                  "generators, whole containers in the three packagings with 0..2 extra content packs, every fourth one made with the "
                  "low-level creators as loose files or joined by tools::concat, with arbitrary free data in every pack header, index and "
                  "manifest pack record, extra packs next to the entry point or in a sub-directory, pack ids dense or spread out) is decoded by the independent "
                  "decoder (harness/src/indep.rs, no jubako code): every layout rule (header CRCs, mirror tail, declared size, check "
                  "block, blake3 over the documented range with the manifest mask, table lengths, sized offsets, cluster/entry/value "
                  "store encodings, zero padding) must hold and the decoded entries/indexes/contents/free data must equal the model; every "
                  "recorded location must name the produced file holding that pack, the manifest's copy of each check info must equal the "
                  "pack's own, and the reader's listing of each file (tools::open_pack: count, uuids, kind, vendor, version, size) must "
                  "name the packs the decoder finds. "
                  "Non-trivial and distinct as in C01/C02 plus the case kind and packaging.",
                  assumptions=["the independent decoder is itself unproven code, validated on the repository's byte-level fixtures' "
                               "CRC check value and on thousands of generated files", "zstd/lz4/xz2 crates used as plain decompressors, blake3 crate as hash",
                               "corpus inputs avoid values the pinned writer stored altered (see DESIGN.md section 6)"], extra=c14_corpus)


def run_C16(tier, seed):
    return simple("C16", tier, seed, "exploration",
                  "cases = insertion sequences of 2..30 contents mixing hints yes/no/detect, every algorithm (none/lz4/lzma/zstd), with "
                  "and without the deduplicating adder (alternating), duplicates at distance incl. with another hint, optional cluster "
                  "close between duplicates. Oracle on the independent decoder's view of the file: hint 'no' or an uncompressed pack => "
                  "cluster compression byte 0 and the file bytes at the decoded offset are the content verbatim; hint 'yes' in a "
                  "compressing pack => compression byte = the pack's algorithm, the cluster decodes and the blob decoded at the content's "
                  "offsets is the content; dedup adder => equal contents (and only equal ones: concatenations of two consecutive contents "
                  "are distinct) "
                  "share one address and the content table has one entry per distinct byte string. The hint clause binds the first "
                  "insertion of a byte string, the dedup clause the repeats. Detect is tallied, not judged. Non-trivial = at least one "
                  "judged item. Distinct = hash(compression, level, adder, run-length (length class, hint, source, dup) sequence).",
                  assumptions=["cluster membership and storage offsets come from the independent decoder"])


def run_C10(tier, seed):
    B.build_cli()
    return simple("C10", tier, seed, "exploration",
                  "case = one generated logical container (1..7 contents, two entry stores incl. variants and a sorted path store, 0..2 "
                  "extra content packs). Scenarios per case: created as OneFile, TwoFiles and NoConcat; tools::concat of the separate "
                  "files in several orders (all permutations up to 4 inputs in thorough, 3 sampled in quick) with and without the extra "
                  "packs; the one-file container appended to prefixes (1,7,63,64,65,4096,100000 random bytes, a text file, a "
                  "'jbkC' header with a bad CRC) and opened through the tail fallback; the all-in-one file next to a decoy pack (other "
                  "uuid) at the recorded location. Every scenario's item-wise dump through Container (indexes, entries, values, content "
                  "sizes and blake3, checks) must equal the model's expected dump. Non-trivial = >= 3 scenarios evaluated. Distinct = "
                  "hash(directory shape, compression, number of extra packs). One case (every 250th in thorough) is a container of 255..300 "
                  "content packs, as loose files and joined into one file. The first concat order of each kind is joined by the "
                  "repository's own `jbk concat` command; the dump includes every pack's free data (own header and manifest record).",
                  assumptions=["dumps go through the public reader; uuids are compared only inside one creation"], timeout=200)


def run_C11(tier, seed):
    return simple("C11", tier, seed, "exploration",
                  "case = a container with 1..4 content packs in separate files (TwoFiles/NoConcat + extra packs); EVERY subset of content "
                  "packs is made unavailable by {removing the file, replacing it by a directory, replacing it by a different valid pack "
                  "with another uuid} (all modes in thorough, one sampled per subset in quick) or kept available as the right pack wrapped "
                  "in a container file; in half of the scenarios one present pack gets one altered byte. Oracle: Container::new succeeds, "
                  "every index/entry/value equals the model, contents of available packs read back, contents of unavailable packs answer "
                  "MISSING(info) with info = the manifest's description decoded independently, get_pack(unknown id) is None, check() is "
                  "Ok(true) iff no present pack was altered. Every 8th case is made with the low-level creators instead: content packs "
                  "recorded in the manifest in reverse id order, all but the last joined into the entry-point file and recorded there with the "
                  "empty location or with the (now stale) name of the file they came from, with or without a different valid pack sitting at "
                  "that stale location; the external pack removed or not, one embedded pack altered or not. A fifth of the cases keep the "
                  "extra packs in a sub-directory and add the mode 'that directory replaced by a regular file'; a third spread the pack ids "
                  "out (holes are unknown packs, not missing ones). Every get_bytes answer is also taken through the MayMissPack "
                  "combinators (map / transpose / as_ref). Non-trivial = > 1 scenario. Distinct = hash(packaging, pack count, seed).",
                  assumptions=["the manifest's pack descriptions are taken from the independent decoder"], timeout=200)


def run_C12(tier, seed):
    B.build_cli()
    return simple("C12", tier, seed, "exploration",
                  "case = a history of 1..12 (thorough ..30) tools::set_location calls on a manifest that is standalone (NoConcat), inside "
                  "a OneFile/TwoFiles container, or inside a container re-assembled by concat in a random order (manifest at another "
                  "offset); targets rotate over all listed packs and, 1 in 8, an unknown uuid; locations of 0, 1, 205..213 and random "
                  "lengths, ASCII and multi-byte UTF-8 cut at character boundaries. After each step: byte diff (only [38,256) of that "
                  "pack info may change, length constant, unknown uuid => no change and Ok(None)), returned old location = sequential "
                  "model, the independent decoder finds no broken rule (pack-info CRC, masked blake3) and reads back the model's "
                  "locations and unchanged descriptions, the library opens the manifest, check() is true and shows the new locations; at "
                  "the end the container content is unchanged. Every fourth history is driven through the repository's own command line "
                  "tool (`jbk locate <file> <uuid> <location>`, old location parsed from its report, declared location read back with "
                  "`jbk locate <file> <uuid>`). A handle on the file opened before the history (tools::open_pack) is kept for all of it: a "
                  "manifest built from it after each step must show the new locations. Non-trivial = >= 1 effective rewrite. Distinct = hash(packaging, layout, steps, seed).",
                  assumptions=["admissible location = at most 213 bytes of valid UTF-8"], timeout=200)


def run_C13(tier, seed):
    return simple("C13", tier, seed, "exploration",
                  "case = one source kind {memory (ContentPack over Vec<u8>), file (raw clusters through FileSource), mmap (entry-store "
                  "slices of a directory pack > 4 KiB), background-decoded (zstd/lz4/lzma clusters)} x 3..9 contents (40 entries for "
                  "mmap) x a random tree of view operations to depth 3 per content: size, stream() and ByteStream::from read with random "
                  "partitions (sizes 0, 1, 4096, oversize) checking offset()/size_left()/size() after each read, get_slice, as_slice, "
                  "cut of cut, ByteSlice->ByteRegion and back; half of the cases hold a content of 1.1..2.6 MiB that is asked for in one read call; "
                  "a third of the file cases end by cutting the file short inside a content after the pack was opened (slice view: error or the "
                  "content; stream view: error or a prefix of it). Every view must equal the corresponding sub-range of the regenerated bytes "
                  "(or of the file bytes located by the independent decoder for mmap). Non-trivial = at least one content that is not "
                  "first in its source. Distinct = hash(source kind, operation seed).",
                  assumptions=["only valid sub-ranges are generated", "thorough: the quick case set is also run under an AddressSanitizer build, and 6 seeds of a small memory-source round trip with the same view operations under Miri (Tree Borrows)"],
                  extra=asan_and_miri("C13", 96))


LAB_RULE = ("specimens built from the seed: four ~2-3 KB containers (OneFile zstd, OneFile uncompressed, TwoFiles lz4, NoConcat lzma; raw and "
            "compressed clusters, variants, plain and indexed value stores, two indexes) and a medium one (1103 contents so that the content "
            "table exceeds 4 KiB and is read through mmap, 3 clusters incl. multi-MiB compressed ones, entry store > 4 KiB), three containers made "
            "with the low-level creators and joined by tools::concat (three content packs sharing the empty location, pack ids from 1 or from 0; "
            "one with an extra pack missing), and one whose content table exceeds 64 KiB (17 000 contents in a file of its own). Structures of "
            "4 KiB and more get 32x the positions and mid-byte masks; files are also cut exactly at every pack boundary; compressed clusters "
            "of 64 KiB and more get 140 KiB of noise in their middle and at three quarters. Damage: "
            "single-byte XOR with 0x01/0x80/0xff (quick: every byte of the first specimen + 1/4 of the others + k positions per named structure "
            "of the medium one; thorough: EVERY byte x 3 masks of the small specimens), 2-8 byte multi-flips inside one pack, zeroed / "
            "overwritten ranges")


def lab_crash_sig(c):
    d = c.desc or {}
    return {"op": (d.get("damage") or {}).get("op"), "structure": d.get("structure")}


def run_C04(tier, seed):
    B.build_cli()
    rep = Report("C04", tier, seed, "fault_enumeration",
                 LAB_RULE + "; C04 restricts positions to bytes the independent decoder's coverage map attributes to a pack's hashed "
                 "range [0, checkInfoPos) or its check block, excluding the manifest's masked location bytes. Oracle: after the damage, "
                 "Container::check, the ContainerPack::check of the file holding the pack (tools::open_pack) and the pack's own check must "
                 "not answer Ok(true) (false / Err / open failure are fine; a crash counts as 'no success' and is C06's subject). Plus the "
                 "pristine clause: every specimen and a set of freshly generated containers (3 packagings x all codecs) must check true, "
                 "also when four threads check one shared opened container / file at once, and through `jbk check`; `jbk check` of the "
                 "damaged file must not say ok either; every third alteration inside the hashed range of a content pack is also made in "
                 "place under a container, a file and a content pack that were opened and had checked true before: asked again, none "
                 "may still answer true. Besides plain flips, ranges and multi-byte flips, 'crc-refit' alterations change one byte of a "
                 "CRC-protected block and recompute that block's CRC (2 per block quick, up to every byte thorough), so that only the "
                 "pack's blake3 can notice (not applied to the check-kind byte, see DESIGN section 12). "
                 "Non-trivial = the damage changed >= 1 covered byte. Distinct = (specimen, file, damage).",
                 ["which bytes a checksum covers comes from the independent decoder (harness/src/indep.rs)"])
    for profile in ("debug", "release"):
        b = B.build(profile)
        total = plan(b, "C04", tier)
        cases, errors = run_batch(b, "C04", tier, seed, profile, total, timeout=120, extra_args=["--case-timeout", "45"])
        rep.add_cases(cases, on_crash="held")
        rep.errors += errors
        rep.obs_inc(f"damage_cases_run.{profile}", len(cases))
        totalp = plan(b, "C04P", tier)
        cases, errors = run_batch(b, "C04P", tier, seed, profile, totalp, timeout=120)
        rep.add_cases(cases)
        rep.errors += errors
        rep.obs_inc(f"pristine_cases_run.{profile}", len(cases))
    rep.exhaustive = (tier == "thorough")
    rep.note("exhaustive_scope", "thorough: every covered byte x 3 masks of the four small specimens; sampled elsewhere" if tier == "thorough" else "sampled")
    return rep.finish()


def run_C05(tier, seed):
    rep = Report("C05", tier, seed, "fault_enumeration",
                 LAB_RULE + ", truncation at structure boundaries +-1 and sampled lengths (thorough: every length of the small specimens), "
                 "appended garbage, replacement by non-jubako files; at ANY file position. Oracle: item-wise comparison of the reader's dump "
                 "(pack list, index windows, every entry's variant and property values, content sizes and blake3) with the pristine dump of "
                 "the same file: every structural item is identical or an error; content bytes may differ only if Container::check() is not "
                 "Ok(true). After damage in a pack description of a manifest, the location of that very pack is rewritten with "
                 "tools::set_location (which re-serialises the description with a fresh CRC) and the pack list is dumped again under the same rule. "
                 "Crashes are C06's subject (counted as 'no silent difference'). Non-trivial = >= 1 byte of a named structure "
                 "changed. Distinct = (specimen, file, damage).",
                 ["the pristine dump of the very same file (same uuids) is the reference"])
    for profile in ("debug", "release"):
        b = B.build(profile)
        total = plan(b, "C05", tier)
        cases, errors = run_batch(b, "C05", tier, seed, profile, total, timeout=120, extra_args=["--case-timeout", "45"])
        rep.add_cases(cases, on_crash="held")
        rep.errors += errors
        rep.obs_inc(f"damage_cases_run.{profile}", len(cases))
    rep.exhaustive = (tier == "thorough")
    rep.note("exhaustive_scope", "thorough: every byte x 3 masks and every truncation length of the four small specimens" if tier == "thorough" else "sampled")
    return rep.finish()


def run_C06(tier, seed):
    rep = Report("C06", tier, seed, "fault_enumeration",
                 LAB_RULE + ", truncations, appended garbage, non-jubako files (empty, 3/4/10/63/64/200/5000 bytes, text); per case the full "
                 "dump and all checks run so that lazy paths (cluster decode, value stores, mmap) are entered, in debug AND release. Oracle = "
                 "process fate: a panic caught on any item (site + normalised message recorded by the panic hook), a worker death by signal "
                 "(SIGABRT from the decompression pool, SIGSEGV/SIGBUS), or a hang confirmed by re-running the case alone for 40 s with two "
                 "CPU samples and a gdb stack. Non-trivial = >= 1 byte of a named structure changed (or length changed). Distinct = "
                 "(specimen, file, damage).",
                 ["'blocks forever' is decided as: still running alone after the long budget with a thread parked in a wait or spinning",
                  "files re-checksummed by an adversary are not generated"])
    for profile in ("debug", "release"):
        b = B.build(profile)
        total = plan(b, "C06", tier)
        cases, errors = run_batch(b, "C06", tier, seed, profile, total, timeout=120, extra_args=["--case-timeout", "45"])

        def confirm(c, b=b):
            d = c.desc or {}
            key = (c.profile, d.get("specimen"), d.get("structure"), (d.get("damage") or {}).get("op"))
            return hang.confirm(b, "C06", c, key, budget=90 if tier == "quick" else 150, extra_sig=lab_crash_sig(c))

        rep.add_cases(cases, crash_sig=lab_crash_sig, hang_confirm=confirm)
        rep.errors += errors
        rep.obs_inc(f"damage_cases_run.{profile}", len(cases))
    if tier == "thorough":
        # no invalid / uninitialised read on damaged inputs: ASan over the quick damage set, memcheck over a strided subset
        san.sanitizer_pass(rep, "C06", "asan", "quick", seed, 3000, jobs=16, timeout=400, extra_args=["--case-timeout", "150"])
        san.valgrind_pass(rep, "C06", "quick", seed, 3, 240, 23)
    rep.exhaustive = (tier == "thorough")
    rep.note("exhaustive_scope", "thorough: every byte x 3 masks and every truncation length of the four small specimens" if tier == "thorough" else "sampled")
    return rep.finish()


def run_C08(tier, seed):
    rep = Report("C08", tier, seed, "exploration",
                 "case = (insertion sequence, worker count, delay seed). Sequences (5 quick / 20 thorough) of 10..30 blocks: 4095 tiny items "
                 "(closes a cluster through the blob limit, compressed or raw), runs of 2..6 contents of 2.2 MiB (close compressed clusters "
                 "through the size limit and fill the queue), runs of raw contents, runs mixing memory / file / file-range sources and "
                 "hints in the same clusters, contents of one cluster or more followed by a duplicate; every third sequence goes through "
                 "the deduplicating adder; runs of raw-only clusters; half of the sequences end on clusters holding nothing but empty "
                 "contents; one sequence in five holds a 17 MiB content (more than the compression queue of one or two workers holds); 25..80 clusters each. Worker counts {1,2,4,15} quick / "
                 "1..15 thorough through the CPU affinity seen by available_parallelism; 4 / 8 delay seeds rotating over the profiles "
                 "uniform heavy-tailed 0-20 ms per (callback, cluster), one slow worker, slow writer, slow workers with a fast main thread. "
                 "Monitors: offline checker over the Progress event log (each cluster opened, handled and written exactly once in that order, "
                 "kinds consistent, counts = cluster table); read-back of every address; pack check(); independent decoder (cluster table vs "
                 "tails, layout rules); identical logical fingerprint for all schedules of one sequence; termination (watchdog + hang "
                 "confirmation). Non-trivial = written order != id order (inversions > 0) or queue pressure (compressed clusters in flight >= "
                 "2 x workers + 2). Distinct = hash(first 64 ids of the written order, worker count, sequence).",
                 ["schedules are sampled by delays, not enumerated"])
    b = B.build("release")
    total = plan(b, "C08", tier)
    cases, errors = run_batch(b, "C08", tier, seed, "release", total, timeout=200, extra_args=["--case-timeout", "90"])

    def confirm(c):
        d = c.desc or {}
        return hang.confirm(b, "C08", c, ("C08", d.get("profile")), budget=90, extra_sig={"step": "create"})

    rep.add_cases(cases, hang_confirm=confirm)
    rep.errors += errors
    # cross-schedule comparison: one logical fingerprint per sequence
    by_seq = {}
    for m in rep.tally["sets"].get("logical", set()):
        seq, h = m.split(":")
        by_seq.setdefault(seq, set()).add(h)
    for seq, hs in sorted(by_seq.items()):
        rep.obs_inc("sequences_compared_across_schedules")
        if len(hs) > 1:
            rep.add_violation({"kind": "schedule-dependent-content"}, f"C08: sequence {seq} yields {len(hs)} different logical contents depending on the schedule",
                              {"hashes": sorted(hs)}, {"seq": seq}, "release")
    if tier == "thorough":
        san.sanitizer_pass(rep, "C08", "tsan", "quick", seed + 500, 12, jobs=4, timeout=1200)
    inv = rep.tally["n"].get("inversions", 0)
    if inv == 0 and rep.evaluations > 0 and not rep.violations:
        rep.inconclusive += rep.evaluations
        rep.inconclusive_notes.append("no reordering was observed in any run: the run set proves nothing about order independence")
        rep.evaluations = 0
    return rep.finish()


def run_C09(tier, seed):
    return c09.run(tier, seed)


def run_C07(tier, seed):
    return c07.run(tier, seed)


PROPS = {"C07": run_C07, "C08": run_C08, "C09": run_C09, "C04": run_C04, "C05": run_C05, "C06": run_C06, "C01": run_C01, "C02": run_C02, "C03": run_C03, "C10": run_C10, "C11": run_C11, "C12": run_C12, "C13": run_C13,
         "C14": run_C14, "C15": run_C15, "C16": run_C16}


def cmd_setup():
    B.build("debug")
    B.build("release")
    B.build_cli()
    return 0


def cmd_replay(path):
    with open(path) as f:
        r = json.load(f)
    prop = r["property"]
    profile = r.get("profile") or "debug"
    if profile not in ("debug", "release", "asan", "tsan"):
        profile = "debug"
    b = B.build(profile)
    if prop in ("C04", "C10", "C12"):
        B.build_cli()
    work = mkwork("replay")
    p = subprocess.run([b, "replay", prop, "--case-file", path, "--work", work, "--tier", r.get("tier", "quick"),
                        "--seed", str(r.get("seed", 1))], stdout=subprocess.PIPE, stderr=subprocess.PIPE, text=True, env=env())
    rmtree(work)
    verdict = None
    for line in p.stdout.splitlines():
        try:
            v = json.loads(line)
        except Exception:
            continue
        if v.get("t") == "end":
            verdict = v
    if verdict is None:
        log(f"replay: worker ended rc={p.returncode} without a verdict; stderr tail:\n{p.stderr[-1500:]}")
        log(f"VIOLATION property={prop} replay={path}" if p.returncode != 0 else "replay: inconclusive")
        return 1 if p.returncode != 0 else 2
    log(f"replay verdict: {verdict['verdict']}")
    for v in verdict.get("viols", []):
        log(f"  what: {v['what'][:600]}")
        log(f"  signature: {json.dumps(v['sig'], sort_keys=True)[:600]}")
    if verdict["verdict"] == "violated":
        log(f"VIOLATION property={prop} replay={path}")
        return 1
    return 0


def main(argv):
    os.makedirs(WORK, exist_ok=True)
    if not argv:
        print(__doc__)
        return 2
    cmd = argv[0]
    try:
        if cmd == "setup":
            return cmd_setup()
        if cmd == "replay":
            return cmd_replay(argv[1])
        if cmd == "run":
            prop = argv[1]
            tier = os.environ.get("VERIF_TIER", "quick")
            seed = seed_from_env()
            i = 2
            while i < len(argv):
                if argv[i] == "--tier":
                    tier = argv[i + 1]; i += 2
                elif argv[i] == "--seed":
                    seed = int(argv[i + 1]); i += 2
                else:
                    i += 1
            if prop not in PROPS:
                log(f"unknown property {prop}")
                return 2
            return PROPS[prop](tier, seed)
    except B.BuildError as e:
        log(f"HARNESS ERROR: {e}")
        return 2
    print("usage: check setup | run <ID> [--tier quick|thorough] [--seed N] | replay <file>")
    return 2
