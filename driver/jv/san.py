"""Sanitizer passes (thorough tiers): run a property's worker cases under an ASan or TSan build, or under valgrind
memcheck, and turn tool reports into violations. A report needs a library frame to be believed for TSan (the C codecs
are not instrumented); ASan/memcheck reports are believed when a jubako frame is on the stack."""
import os, re, subprocess
from . import build as B
from .common import *
from .pool import run_batch, plan

SAN_PATTERNS = [("tsan", re.compile(r"WARNING: ThreadSanitizer: ([^\n(]+)")), ("asan", re.compile(r"ERROR: AddressSanitizer: ([^\n ]+)"))]
OPTS = {"tsan": {"TSAN_OPTIONS": "halt_on_error=1 second_deadlock_stack=1 exitcode=66"},
        "asan": {"ASAN_OPTIONS": "detect_leaks=0 abort_on_error=0 halt_on_error=1 exitcode=67"}}


def reports(stderr):
    out = []
    for tool, pat in SAN_PATTERNS:
        for m in pat.finditer(stderr or ""):
            chunk = stderr[m.start():m.start() + 8000]
            frames = re.findall(r"#\d+ (?:0x[0-9a-f]+ in )?((?:jubako|jbkverif)[A-Za-z0-9_:<>$]*)", chunk)
            frames = [re.sub(r"::h[0-9a-f]{16}$", "", f) for f in frames]
            out.append((tool, m.group(1).strip(), frames[:6]))
    return out


def sanitizer_pass(rep, prop, profile, tier_for_cases, seed, max_cases, jobs=8, timeout=900, extra_args=None):
    try:
        b = B.build(profile)
    except B.BuildError as e:
        rep.inconclusive += 1
        rep.inconclusive_notes.append(f"{profile} build failed: {str(e)[-300:]}")
        return
    total = min(plan(b, prop, tier_for_cases), max_cases)
    cases, errors = run_batch(b, prop, tier_for_cases, seed, profile, total, jobs=jobs, timeout=timeout, extra_env=OPTS[profile], extra_args=extra_args)
    rep.errors += errors
    rep.obs_inc(f"{profile}_cases_run", len(cases))
    for c in cases:
        if c.fate is not None:
            reps = reports(c.stderr)
            if reps:
                for tool, what, frames in reps[:3]:
                    in_lib = any(f.startswith("jubako") for f in frames)
                    if not in_lib:
                        rep.obs_inc(f"{tool}_reports_without_library_frames(listed, not judged)")
                        rep.obs_set(f"{tool}_unjudged_reports", f"{what} {frames[:2]}")
                        continue
                    rep.evaluations += 1
                    rep.add_violation({"kind": tool, "report": what, "frames": [f for f in frames if f.startswith("jubako")][:2]},
                                      f"{rep.prop}: {tool} report '{what}' with frames {frames}", {"stderr_tail": c.stderr[-3000:]}, c.desc, profile)
                c.fate = None
                c.verdict = "held"
                c.viols = []
    rep.add_cases(cases)


def valgrind_pass(rep, prop, tier_for_cases, seed, first, n, stride, timeout=1800):
    """memcheck over a strided subset of the cases, one valgrind process per shard of the range"""
    b = B.build("release")
    total = plan(b, prop, tier_for_cases)
    idx = list(range(first, total, stride))[:n]
    if not idx:
        return
    work = mkwork("vg")
    procs = []
    shards = 8
    for s in range(shards):
        ks = idx[s::shards]
        if not ks:
            continue
        log = os.path.join(work, f"vg-{s}.log")
        # cases ks are equally spaced: from=ks[0], stride=stride*shards
        cmd = ["valgrind", "--tool=memcheck", "--error-exitcode=0", f"--log-file={log}", "--num-callers=20", "-q", b, "run", prop, "--seed", str(seed),
               "--tier", tier_for_cases, "--from", str(ks[0]), "--to", str(ks[-1] + 1), "--stride", str(stride * shards), "--work", work]
        procs.append((subprocess.Popen(cmd, stdout=subprocess.DEVNULL, stderr=subprocess.DEVNULL, env=env()), log, len(ks)))
    ran = 0
    for p, log, n_cases in procs:
        try:
            p.wait(timeout=timeout)
            ran += n_cases
        except subprocess.TimeoutExpired:
            p.kill()
            rep.inconclusive += 1
            rep.inconclusive_notes.append("valgrind shard timed out")
        try:
            text = open(log, errors="replace").read()
        except Exception:
            text = ""
        for m in re.finditer(r"==\d+== (Invalid (?:read|write) of size \d+|Conditional jump or move depends on uninitialised value\(s\)|Use of uninitialised value of size \d+|Syscall param [^\n]+uninitialised[^\n]*)", text):
            chunk = text[m.start():m.start() + 3000]
            frames = re.findall(r"(?:at|by) 0x[0-9A-F]+: ((?:jubako|<jubako)[^\n(]*)", chunk)
            if not frames:
                rep.obs_inc("memcheck_reports_without_library_frames(listed, not judged)")
                continue
            rep.evaluations += 1
            rep.add_violation({"kind": "memcheck", "report": re.sub(r"\d+", "N", m.group(1)), "frames": [re.sub(r"::h[0-9a-f]{16}", "", f.strip()) for f in frames[:2]]},
                              f"{rep.prop}: valgrind memcheck: {m.group(1)} in {frames[:3]}", {"log_excerpt": chunk[:1500]}, {"tool": "memcheck"}, "release")
    rep.obs_inc("memcheck_cases_run", ran)
    rmtree(work)


def miri_rt_pass(rep, seeds):
    """`rtmiri` under Miri (Tree Borrows): in-memory directory round trip + raw content pack read from memory with view operations."""
    import time
    from concurrent.futures import ThreadPoolExecutor
    flags = "-Zmiri-tree-borrows -Zmiri-ignore-leaks -Zmiri-disable-isolation"

    def one(s):
        p = subprocess.run(["cargo", "+nightly", "miri", "run", "--offline", "--bin", "rtmiri", "--", str(s)], cwd=HARNESS, env=env({"MIRIFLAGS": flags}),
                           stdout=subprocess.PIPE, stderr=subprocess.PIPE, text=True, timeout=3000)
        return s, p.returncode, p.stdout, p.stderr

    results = [one(seeds[0])]
    with ThreadPoolExecutor(max_workers=8) as ex:
        results += list(ex.map(one, seeds[1:]))
    for s, rc, out, err in results:
        if "Undefined Behavior" in err or "Data race" in err or "RTMIRI-VIOLATION" in err:
            m = re.search(r"error: (Undefined Behavior[^\n]*|[^\n]*Data race[^\n]*)", err)
            frames = re.findall(r"(jubako::[A-Za-z0-9_:<>]+)", err)[:3]
            what = m.group(1) if m else (re.search(r"RTMIRI-VIOLATION ([^\n]*)", err).group(1) if "RTMIRI-VIOLATION" in err else "?")
            rep.evaluations += 1
            rep.add_violation({"kind": "miri", "report": re.sub(r"alloc\d+|0x[0-9a-f]+|\d+", "N", what)[:120], "frames": frames[:2]},
                              f"{rep.prop}: Miri (rtmiri seed {s}): {what}", {"stderr_tail": err[-3000:]}, {"tool": "miri", "bin": "rtmiri", "seed": s}, "miri")
        elif rc != 0 or "RTMIRI-OK" not in out:
            rep.inconclusive += 1
            rep.inconclusive_notes.append(f"rtmiri seed {s}: rc={rc} {err[-200:]}")
        else:
            rep.evaluations += 1
            rep.fps.add(f"rtmiri-{s}")
            rep.obs_inc("miri_roundtrips_ok")
