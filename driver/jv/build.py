"""Building the harness (and through it /repo's current working tree) in the profiles of the matrix."""
import os, subprocess, time
from .common import HARNESS, env, log

_built = {}
HOOKS_OFF = set()


class BuildError(Exception):
    pass


def target_dir(profile):
    return {
        "debug": os.path.join(HARNESS, "target"),
        "release": os.path.join(HARNESS, "target"),
        "asan": os.path.join(HARNESS, "target-asan"),
        "tsan": os.path.join(HARNESS, "target-tsan"),
    }[profile]


def binary(profile, name="jbkverif"):
    if profile == "debug":
        return os.path.join(HARNESS, "target", "debug", name)
    if profile == "release":
        return os.path.join(HARNESS, "target", "release", name)
    if profile == "asan":
        return os.path.join(HARNESS, "target-asan", "x86_64-unknown-linux-gnu", "release", name)
    if profile == "tsan":
        return os.path.join(HARNESS, "target-tsan", "x86_64-unknown-linux-gnu", "release", name)
    raise KeyError(profile)


def build(profile):
    """cargo re-fingerprints /repo's sources, so an edited tree is recompiled."""
    if profile in _built:
        return _built[profile]
    if os.environ.get("JV_BINARY_OVERRIDE") and profile in ("debug", "release"):
        # measurement aid (tools/coverage.sh): run the checks with a coverage-instrumented worker built elsewhere
        _built[profile] = os.environ["JV_BINARY_OVERRIDE"]
        return _built[profile]
    t0 = time.time()
    lock = os.path.join(HARNESS, "Cargo.lock")
    if not os.path.exists(lock):
        import shutil
        shutil.copy("/repo/Cargo.lock", lock)
    if profile == "debug":
        cmd, e = ["cargo", "build", "--offline"], env()
    elif profile == "release":
        cmd, e = ["cargo", "build", "--offline", "--release"], env()
    elif profile == "asan":
        cmd = ["cargo", "+nightly", "build", "--offline", "--release", "--target", "x86_64-unknown-linux-gnu",
               "--target-dir", target_dir("asan")]
        e = env({"RUSTFLAGS": "--cfg jubako_verif -Zsanitizer=address -Cforce-frame-pointers=yes"})
    elif profile == "tsan":
        cmd = ["cargo", "+nightly", "build", "--offline", "--release", "-Zbuild-std", "--target",
               "x86_64-unknown-linux-gnu", "--target-dir", target_dir("tsan")]
        e = env({"RUSTFLAGS": "--cfg jubako_verif -Zsanitizer=thread -Cforce-frame-pointers=yes"})
    else:
        raise KeyError(profile)
    p = subprocess.run(cmd, cwd=HARNESS, env=e, stdout=subprocess.PIPE, stderr=subprocess.STDOUT, text=True)
    if p.returncode != 0 and profile in ("debug", "release"):
        # The tree may have been edited in a way that breaks only the cfg(jubako_verif) hook lines. Every check but C07
        # works without the hooks: rebuild with the guard off (own target dir) and say so.
        tail = "\n".join(p.stdout.splitlines()[-12:])
        log(f"[build] {profile} build with --cfg jubako_verif failed; retrying with the hooks off. Last lines:\n{tail}")
        nohook = os.path.join(HARNESS, "target-nohook")
        p2 = subprocess.run(cmd + ["--target-dir", nohook], cwd=HARNESS, env=env({"RUSTFLAGS": ""}), stdout=subprocess.PIPE,
                            stderr=subprocess.STDOUT, text=True)
        if p2.returncode == 0:
            b = os.path.join(nohook, profile, "jbkverif")
            if os.path.exists(b):
                HOOKS_OFF.add(profile)
                log(f"[build] {profile}: built WITHOUT hooks ({time.time()-t0:.1f}s); C07 cannot run in this state")
                _built[profile] = b
                return b
    if p.returncode != 0:
        tail = "\n".join(p.stdout.splitlines()[-40:])
        raise BuildError(f"build of profile {profile} failed:\n{tail}")
    b = binary(profile)
    if not os.path.exists(b):
        raise BuildError(f"binary missing after build: {b}")
    log(f"[build] {profile}: {time.time()-t0:.1f}s")
    _built[profile] = b
    return b


_cli = {}


def build_cli():
    """The repository's own command line tool (`jbk`, feature build_bin) built from /repo's current tree: a second entry
    point for C04 (`jbk check`), C10 (`jbk concat`) and C12 (`jbk locate`). Exports JBK_CLI for the workers. When it does not
    build, the workers use the library calls only and count 'command_line_tool_unavailable' (never a verdict)."""
    if "path" in _cli:
        return _cli["path"]
    from .common import REPO
    t0 = time.time()
    tdir = os.path.join(HARNESS, "target-cli")
    cmd = ["cargo", "build", "--offline", "--release", "--features", "build_bin,lz4,lzma,zstd", "--bin", "jbk", "--target-dir", tdir]
    path = None
    try:
        p = subprocess.run(cmd, cwd=REPO, env=env(), stdout=subprocess.PIPE, stderr=subprocess.STDOUT, text=True, timeout=1800)
        b = os.path.join(tdir, "release", "jbk")
        if p.returncode == 0 and os.path.exists(b):
            path = b
            log(f"[build] jbk command line tool: {time.time()-t0:.1f}s")
        else:
            tail = "\n".join(p.stdout.splitlines()[-8:])
            log(f"[build] the jbk command line tool does not build (library entry points only). Last lines:\n{tail}")
    except Exception as e:  # noqa
        log(f"[build] the jbk command line tool could not be built: {e}")
    _cli["path"] = path
    if path:
        os.environ["JBK_CLI"] = path
    else:
        os.environ.pop("JBK_CLI", None)
    return path
