#!/usr/bin/env python3
"""Prompt for a later-round mutation-seeding sub-agent: the base prompt (text of the property only) plus the anchor
files and one-line summaries of the changes earlier agents already made against this property (their own words)."""
import json, sys, glob, subprocess
pid = sys.argv[1]; d = sys.argv[2]
base = subprocess.run([sys.executable, '/verif/tools/seed_prompt.py', pid, d], capture_output=True, text=True).stdout
p = [json.loads(l) for l in open('/verif/properties.jsonl') if json.loads(l)['id'] == pid][0]
prev = []
for f in sorted(glob.glob('/verif/seeded/*/meta.json')):
    m = json.load(open(f))
    if m.get('property') == pid:
        prev.append('  - ' + (m.get('summary') or '')[:260].replace('\n', ' '))
extra = f"""

Additional guidance for this round:
- Source files most involved in this property: {', '.join(p['anchors']['files'])} (you may change other files of src/ too).
- Run the test suite with `TMPDIR=$(mktemp -d) cargo nextest run --workspace --no-fail-fast --offline -j 1` (two integration tests share temp file names and fail spuriously when run in parallel). Remove your demo files from tests/ before running the suite.
- Earlier rounds already produced the changes summarised below. Do NOT redo these or close variants of them: pick OTHER functions, other code paths (reader vs creator, tools, rarely used public API such as free data, explicit pack ids, value store kinds, packagings, file vs memory sources, the `Word`/`Vow`/`Bound` deferred values, locators, caches), other boundaries, other interleavings. Prefer changes whose effect is silent (wrong data, wrong verdict, lost update) over ones that panic immediately, and changes that need an unusual but legal use of the public API. Also consider regressions that show only in optimised builds or only in debug builds, only with unusual compression levels or algorithms, only beyond a large count (more than 255, 4095, 65535 entries / contents / values / packs), only for blocks of 4 KiB and more (memory-mapped reads), or only when two API calls are made in an unusual order.
{chr(10).join(prev)}
"""
print(base.rstrip() + extra)
