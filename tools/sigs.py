#!/usr/bin/env python3
"""Summarise worker JSON lines from stdin: violations grouped by signature."""
import sys,json,collections
sigs=collections.Counter(); ex={}; n=0; nt=0; fps=set(); inc=0
obs=collections.Counter()
for l in sys.stdin:
    try: v=json.loads(l)
    except Exception: continue
    if v.get('t')=='end':
        n+=1
        if v['nontrivial']: nt+=1; fps.add(v['fp'])
        for x in v['viols']:
            k=json.dumps(x['sig'],sort_keys=True); sigs[k]+=1; ex.setdefault(k,(v['k'],x['what'][:400]))
        if v['verdict']=='inconclusive': inc+=1; print('INC',v['k'],v['note'])
        for k,c in v['obs']['n'].items(): obs[k]+=c
print(n,'cases',nt,'nontrivial',len(fps),'distinct',inc,'inconclusive')
for k,c in sigs.most_common(): print(c,k,'\n    e.g.',ex[k])
if '-o' in sys.argv: print(dict(obs))
