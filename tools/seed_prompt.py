#!/usr/bin/env python3
"""Print the prompt given to a mutation-seeding sub-agent for one property (text of the property only)."""
import json, sys
pid = sys.argv[1]; d = sys.argv[2]
p = [json.loads(l) for l in open('/verif/properties.jsonl') if json.loads(l)['id'] == pid][0]
print(f"""You are working alone in a scratch git worktree of the Rust crate `jubako` (reference implementation of the Jubako container format) at {d} (detached HEAD, full copy of the sources). The machine has no network: always pass `--offline` to cargo. Work ONLY inside {d} (its own `target/` dir is fine). Never read or touch /repo or /verif.

Here is a semantic property the library is meant to satisfy:

  Title: {p['title']}
  Statement: {p['statement']}
  Scope (what it quantifies over): {p['quantifier']['text']}

Your task: produce TWO independent source changes, A and B (different mechanisms / different places), to the library code under src/ such that each one BREAKS this property, while
  (1) the crate still compiles: `cargo build --offline --features lz4,lzma,zstd`
  (2) the existing test suite still passes unchanged: `cargo nextest run --workspace --no-fail-fast --offline` (127 tests pass on the unchanged tree; if nextest is unavailable use `cargo test --workspace --no-fail-fast --offline`).
Do not edit tests/, src/verif.rs, or any code under `#[cfg(jubako_verif)]`, and do not edit existing unit tests.

The changes must be realistic regressions (what a maintainer could plausibly introduce: an off-by-one, a wrong boundary or width, a dropped or reordered step, a missing case, a range computed from the wrong field, a dropped notification/lock, two sites changed consistently so that each looks fine alone). They must need something SPECIFIC to manifest — a particular interleaving, a crash or I/O fault at a particular point, a multi-step sequence of operations, an unusual input (size boundary, rare value, rare configuration), or two cooperating sites — NOT something that every ordinary use of the library would expose at once. Keep each change small (1-15 lines).

For each change write a demonstration: a Rust integration test file (e.g. tests/seed_demo_A.rs; you may use the crate's dev-dependencies and the public API: jubako::creator::*, jubako::reader::*, jubako::tools::*) or a small program/script, that FAILS with the change applied and PASSES on the unchanged tree. Run it both ways yourself and record what you ran and saw. (The unchanged tree may itself already mishandle some inputs with respect to this property; your demonstration must PASS on the unchanged tree, so build it on inputs the unchanged tree handles correctly, and make sure the failure you show is caused by your change.) Read the sources (src/, examples/, tests/, spec/) to learn the API.

Deliver, for X in {{A, B}}, a directory {d}/SEED/X/ containing:
  - patch.diff : `git diff HEAD -- src` for that change only (must apply with `git apply` from the repository root onto the unchanged tree)
  - the demonstration file(s) (copies), and a one-line `run.txt` with the exact command that runs it from the repository root (say where the demo file must be placed, e.g. tests/seed_demo_A.rs)
  - meta.json : {{"property": "{pid}", "summary": "...what the change does...", "needs_to_manifest": "...the specific input/sequence/interleaving/fault...", "files_touched": [...], "verified": ["command -> observed result", ...]}}
When finished, restore the worktree sources (`git checkout -- src`; remove your demo files from tests/), leaving only SEED/ as an untracked directory. Your final reply must be at most 10 lines: for A and B one sentence each on what was changed and what it needs to manifest, and whether all three verifications (builds, suite passes, demo fails-with/passes-without) succeeded.""")
