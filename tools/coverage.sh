#!/bin/bash
# Measurement aid, not a check: which lines of /repo/src do the quick checks execute?
# Builds the worker with -Cinstrument-coverage (nightly, own target dir under work/), runs every quick check with it,
# and prints per-file line coverage of /repo/src plus the list of functions never executed.
set -e
V=/verif
C=$V/work/cov
LLVM=$(dirname $(find /root/.rustup/toolchains/nightly-x86_64-unknown-linux-gnu -name llvm-cov | head -1))
mkdir -p $C/prof
rm -f $C/prof/*.profraw
cd $V/harness
CARGO_NET_OFFLINE=true RUSTFLAGS="--cfg jubako_verif -Cinstrument-coverage" cargo +nightly build --offline --target-dir $C/target 2>&1 | tail -1
cd $V
for p in ${@:-C01 C02 C03 C04 C05 C06 C07 C08 C09 C10 C11 C12 C13 C14 C15 C16}; do
  LLVM_PROFILE_FILE="$C/prof/$p-%p-%8m.profraw" JV_BINARY_OVERRIDE=$C/target/debug/jbkverif ./check run $p --tier quick 2>&1 | tail -1
done
find $C/prof -size 0 -delete; ls $C/prof/*.profraw > $C/list.txt; $LLVM/llvm-profdata merge -failure-mode=warn -sparse -f $C/list.txt -o $C/all.profdata 2>/dev/null; rm -rf $C/prof
$LLVM/llvm-cov report $C/target/debug/jbkverif -instr-profile=$C/all.profdata --ignore-filename-regex='(registry|rustc|harness)' > $C/report.txt 2>/dev/null || true
$LLVM/llvm-cov export $C/target/debug/jbkverif -instr-profile=$C/all.profdata --ignore-filename-regex='(registry|rustc|harness)' -format=lcov > $C/lcov.info 2>/dev/null || true
echo "report: $C/report.txt  lcov: $C/lcov.info"
# children started with a cleaned environment write default_*.profraw into their working directory: remove them
rm -f /repo/default_*.profraw /verif/harness/default_*.profraw /verif/default_*.profraw
