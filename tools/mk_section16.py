#!/usr/bin/env python3
"""(Re)write DESIGN.md section 16 from evidence files: mk_section16.py <quick evidence dir> <thorough evidence dir> [note]"""
import subprocess, sys, re
q, t = sys.argv[1], sys.argv[2]
note = sys.argv[3] if len(sys.argv) > 3 else ""
table = subprocess.run([sys.executable, "/verif/tools/asbuilt.py", q, t], capture_output=True, text=True).stdout
sec = f"""## 16. As built: what each check covers, in numbers

The numbers below are read from the evidence files of one quick run (from /verif against /repo, `VERIF_SEED=1`) and one
thorough run of every check on the final state of /verif and /repo {note}. "evaluations" counts
oracle evaluations (a case run under two build profiles counts twice; a damage case counts once per profile), "distinct
non-trivial" the distinct fingerprints among the evaluations in which the monitors had something to observe (rule text in
each evidence file). Wall times were measured on the 16-core sandbox while other runs were in progress (on the idle machine
the quick checks take between 3 s and about 60 s each). Every count is measured by the run that wrote the evidence file.

{table}
Sanitizers and interpreters in the thorough tier: AddressSanitizer for C01 (64 cases), C02 (96), C06 (3000), C07 (12) and C13
(96); ThreadSanitizer (`-Zbuild-std`) for C07 (12 cases, pure-Rust decoder and real codecs), C08 (12 creations) and C15 (72 cases,
the parallel sort and index assignment); Miri (Tree Borrows) for C07 (3-reader scenario, 16 processes x 2 seeds = 32 executions)
and for C13/C02 round trips (6 seeds); valgrind memcheck for C06 (240 cases). A report with library frames is a violation, reports wholly
inside third-party frames are listed in the evidence and not judged.

"""
p = "/verif/DESIGN.md"
s = open(p).read()
a = s.find("## 16. As built")
b = s.index("## Appendix A")
if a < 0:
    a = b
s = s[:a] + sec + s[b:]
open(p, "w").write(s)
print("section 16 written,", len(table.splitlines()), "table lines")
