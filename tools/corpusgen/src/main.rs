//! Writes the reference corpus with the PINNED version of the library (this crate is linked against a worktree of
//! fc3306d) reusing the harness' generator modules, and cross-checks every file with the pinned reader.
#![allow(dead_code)]
#[path = "/verif/harness/src/c01.rs"]
mod c01;
#[path = "/verif/harness/src/cont.rs"]
mod cont;
#[path = "/verif/harness/src/content.rs"]
mod content;
#[path = "/verif/harness/src/corpus.rs"]
mod corpus;
#[path = "/verif/harness/src/dirs.rs"]
mod dirs;
#[path = "/verif/harness/src/dump.rs"]
mod dump;
#[path = "/verif/harness/src/indep.rs"]
mod indep;
#[path = "/verif/harness/src/proto.rs"]
mod proto;
#[path = "/verif/harness/src/rng.rs"]
mod rng;
#[path = "/verif/harness/src/util.rs"]
mod util;

use std::path::PathBuf;
use std::sync::Arc;

fn main() {
    util::install_panic_hook();
    let out = PathBuf::from(std::env::args().nth(1).expect("output dir"));
    let mut summary = vec![];
    for cc in corpus::cases() {
        let dir = out.join(&cc.name);
        let _ = std::fs::remove_dir_all(&dir);
        std::fs::create_dir_all(&dir).unwrap();
        let created = cont::create_container(&cc.case, &dir, "c.jbk", Arc::new(())).expect("pinned creation");
        let _ = std::fs::remove_dir_all(dir.join("inputs"));
        if let Some(rot) = cc.concat_rot {
            let mut files: Vec<PathBuf> = created.files.iter().filter(|f| !f.file_name().unwrap().to_string_lossy().starts_with("extra")).cloned().collect();
            let r = rot % files.len();
            files.rotate_left(r);
            let outp = camino::Utf8PathBuf::from_path_buf(dir.join("all.jbk")).unwrap();
            jubako::tools::concat(&files, &outp).expect("pinned concat");
        }
        // expected dump from the model
        let mut plan = dump::plan_for(&cc.case, Some(&created));
        plan.checks = false;
        let expected = dump::expected_dump(&cc.case, &created, &plan);
        std::fs::write(dir.join("expected.json"), serde_json::to_string_pretty(&expected).unwrap()).unwrap();
        std::fs::write(dir.join("case.json"), serde_json::to_string(&cc.case.to_json()).unwrap()).unwrap();
        // cross-check 1: independent decoder on the pinned files
        let mut problems = vec![];
        for (p, v) in cont::decode_files(&created.files) {
            for pr in &v.problems {
                problems.push(format!("{}: {pr}", p.file_name().unwrap().to_string_lossy()));
            }
            if v.directory_pack().is_some() {
                for d in cont::compare_directory(&cc.case.dir, &created.inst.models, &v) {
                    problems.push(format!("decoder vs model: {d}"));
                }
            }
        }
        // cross-check 2: the pinned reader, where it can read the file
        let mut agree = 0;
        let mut disagree = vec![];
        for entry in ["c.jbk", "all.jbk"] {
            let p = dir.join(entry);
            if !p.exists() {
                continue;
            }
            let got = dump::dump_container(&p, &plan);
            for (k, e) in &expected {
                match got.get(k) {
                    Some(g) if g == e => agree += 1,
                    Some(g) => disagree.push(format!("{entry}: {k}: pinned reader {} / model {}", util::truncate(g, 80), util::truncate(e, 80))),
                    None => disagree.push(format!("{entry}: {k}: not reached by the pinned reader")),
                }
            }
        }
        let size: u64 = cont::list_files(&dir).iter().map(|f| std::fs::metadata(f).map(|m| m.len()).unwrap_or(0)).sum();
        println!("{}: {} bytes, decoder problems {}, pinned reader agrees on {} items, differs on {}", cc.name, size, problems.len(), agree, disagree.len());
        std::fs::write(
            dir.join("generation.json"),
            serde_json::to_string_pretty(&serde_json::json!({"written_by": "jubako fc3306d (pinned)", "decoder_rule_findings_on_pinned_files": problems,
                "pinned_reader_items_agreeing": agree, "pinned_reader_items_differing": disagree.iter().take(40).collect::<Vec<_>>(), "pinned_reader_items_differing_count": disagree.len()})).unwrap(),
        )
        .unwrap();
        summary.push(cc.name.clone());
    }
    println!("wrote {} corpus entries", summary.len());
}
