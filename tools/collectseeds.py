#!/usr/bin/env python3
"""Copy evaluated seeded changes into /verif/seeded/<id>/ (patch.diff, demonstration, run.txt, meta.json).
meta.json = the author's meta + what was verified here (tools/evalseeds.py results) + which checks catch it.
usage: collectseeds.py <seed dir>=<id> ...      e.g. /tmp/seed/C01/SEED/B=C01-B"""
import json, os, shutil, sys, glob


def evals_for(name):
    out = []
    for f in sorted(glob.glob("/verif/work/seedeval*/**/*.json", recursive=True) + glob.glob("/verif/work/seedeval/*.json")):
        try:
            r = json.load(open(f))
        except Exception:
            continue
        if r.get("seed", "").rstrip("/") == name.rstrip("/"):
            out.append(r)
    return out


def main():
    for arg in sys.argv[1:]:
        src, sid = arg.split("=")
        dst = os.path.join("/verif/seeded", sid)
        os.makedirs(dst, exist_ok=True)
        if os.path.isdir(src):
            for f in os.listdir(src):
                if os.path.isfile(os.path.join(src, f)) and os.path.abspath(src) != os.path.abspath(dst):
                    shutil.copy(os.path.join(src, f), os.path.join(dst, f))
        meta = json.load(open(os.path.join(src if os.path.isdir(src) else dst, "meta.json")))
        prev = {}
        if os.path.exists(os.path.join(dst, "meta.json")):
            try:
                prev = json.load(open(os.path.join(dst, "meta.json"))).get("evaluation", {})
            except Exception:
                prev = {}
        ev = dict(prev)
        for r in evals_for(src):
            ev.setdefault("verified_here", {})
            ev["verified_here"].update({"patch_applies_to_repo_head": r.get("applies"), "patched_tree_builds": r.get("builds"),
                                        "repository_suite_with_patch": r.get("suite"), "demo_passes_on_unchanged_tree": r.get("demo_passes_unchanged"),
                                        "demo_fails_with_patch": r.get("demo_fails_with_change")})
            for p, v in (r.get("checks") or {}).items():
                ev.setdefault("checks", {})[p] = {"command": f"./check run {p} --tier quick (patched tree bind-mounted over /repo by tools/evalseeds.py)",
                                                  "exit": v["exit"], "violations_reported": v["violations"], "first": (v.get("first_what") or [""])[0][:300]}
        ev["caught_by"] = sorted(p for p, v in (ev.get("checks") or {}).items() if v["exit"] == 1 and v["violations_reported"] > 0)
        meta["breaks_property"] = meta.get("property")
        meta["evaluation"] = ev
        json.dump(meta, open(os.path.join(dst, "meta.json"), "w"), indent=1)
        print(sid, "caught_by", ev["caught_by"])


main()
