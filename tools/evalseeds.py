#!/usr/bin/env python3
"""Evaluate seeded changes: for each <dir>/patch.diff verify (in a scratch copy of /repo's HEAD) that the patched
tree builds, that the repository's suite passes, that the demonstration fails with the change and passes without
it, and then run the owning property's check against the patched tree inside a private mount namespace
(scratch copies bind-mounted over /repo and /verif), so that /repo itself is never touched.

usage: evalseeds.py [--tier quick] [--jobs 3] [--props C01,C02] <seed dir> ...   (seed dir holds patch.diff, meta.json, run.txt, demo)
results: /verif/work/seedeval/<name>.json and a table on stdout
"""
import json, os, re, shutil, subprocess, sys, time
from concurrent.futures import ThreadPoolExecutor

SCR = "/tmp/ev"


def sh(cmd, cwd=None, timeout=3600, env=None):
    e = dict(os.environ)
    e["CARGO_NET_OFFLINE"] = "true"
    if env:
        e.update(env)
    p = subprocess.run(cmd, shell=True, cwd=cwd, stdout=subprocess.PIPE, stderr=subprocess.STDOUT, text=True, timeout=timeout, env=e)
    return p.returncode, p.stdout


def fresh_repo(dst):
    os.makedirs(dst)
    sh(f"git -C /repo archive HEAD | tar -x -C {dst}")
    shutil.copy("/repo/Cargo.lock", dst)
    if os.path.isdir("/repo/target"):
        sh(f"cp -r /repo/target {dst}/target")


def demo_cmd(seed):
    run = open(os.path.join(seed, "run.txt")).read().strip().splitlines()[0]
    run = run.split("#")[0].strip()
    # "Place … at tests/…, then from the repository root: cargo test …": keep the command
    if not re.match(r"^(cargo|cp|bash|sh|python3|TMPDIR=|RUST|CARGO)", run) and "cargo " in run:
        run = run[run.index("cargo "):]
    # run.txt refers to SEED/X/...: make the path absolute
    run = re.sub(r"\bSEED/[AB]/", seed.rstrip("/") + "/", run)
    run = run.replace("cargo test --offline", "cargo test --offline -q").replace("cargo nextest", "cargo nextest")
    return run


def evaluate(seed, tier, props_override=None):
    name = "-".join(seed.rstrip("/").split("/")[-3:]).replace("SEED-", "")
    meta = json.load(open(os.path.join(seed, "meta.json")))
    prop = meta.get("property")
    res = {"seed": seed, "name": name, "property": prop, "summary": meta.get("summary", "")[:300]}
    base = os.path.join(SCR, name)
    shutil.rmtree(base, ignore_errors=True)
    repo = os.path.join(base, "repo")
    try:
        fresh_repo(repo)
        patch = os.path.join(seed, "patch.diff")
        rc, out = sh(f"git apply --check {patch}", cwd=repo)
        if rc != 0:
            res["applies"] = False
            res["apply_error"] = out[-300:]
            return res
        res["applies"] = True
        tmpd = os.path.join(base, "tmp")
        os.makedirs(tmpd)
        # demo on the unchanged tree must pass
        dc = demo_cmd(seed)
        def put_demo():
            # some run.txt files give the copy step only as a comment: place the demonstration files ourselves
            for f in os.listdir(seed):
                if f.startswith("seed_demo") and f.endswith(".rs"):
                    shutil.copy(os.path.join(seed, f), os.path.join(repo, "tests", f))
        put_demo()
        rc, out = sh(dc, cwd=repo, env={"TMPDIR": tmpd}, timeout=1800)
        res["demo_passes_unchanged"] = rc == 0
        if rc != 0:
            res["demo_unchanged_tail"] = out[-600:]
        def rm_demo():
            for f in os.listdir(os.path.join(repo, "tests")):
                if f.startswith("seed_demo"):
                    os.unlink(os.path.join(repo, "tests", f))
        rm_demo()
        sh(f"git apply {patch}", cwd=repo)
        rc, out = sh("cargo build --offline --features lz4,lzma,zstd 2>&1 | tail -3", cwd=repo, timeout=1800)
        res["builds"] = "error" not in out.lower() or "Finished" in out
        rc, out = sh("cargo nextest run --workspace --no-fail-fast --offline -j 1 2>&1 | tail -4", cwd=repo, env={"TMPDIR": tmpd}, timeout=1800)
        m = re.search(r"(\d+) tests run: (\d+) passed", out)
        res["suite"] = m.group(0) if m else out[-200:]
        res["suite_passes"] = bool(m and m.group(1) == m.group(2))
        put_demo()
        rc, out = sh(dc, cwd=repo, env={"TMPDIR": tmpd}, timeout=1800)
        res["demo_fails_with_change"] = rc != 0 and "no test target" not in out
        # remove the demo file from tests/ so that it is not part of the tree the checks see
        rm_demo()
        shutil.rmtree(os.path.join(repo, "target"), ignore_errors=True)
        # the checks, in a private mount namespace
        verif = os.path.join(base, "verif")
        # the COMMITTED state of /verif (edits in progress in the working tree do not leak into an evaluation), plus the
        # build caches; the harness sources are touched so that cargo rebuilds the harness crate from them whatever the caches hold
        sh(f"mkdir -p {verif} && git -C /verif archive HEAD | tar -x -C {verif}")
        for t in ("target", "target-cli"):
            if os.path.isdir(f"/verif/harness/{t}"):
                sh(f"cp -r /verif/harness/{t} {verif}/harness/{t}")
        sh(f"find {verif}/harness/src {verif}/harness/Cargo.toml -type f -exec touch {{}} +")
        res["checks"] = {}
        for p in (props_override or [prop]):
            t0 = time.time()
            rc, out = sh(f"unshare -m bash -c 'mount --bind {repo} /repo && mount --bind {verif} /verif && cd /verif && ./check run {p} --tier {tier}'", timeout=7200)
            try:
                os.makedirs("/verif/work/seedeval", exist_ok=True)
                open(f"/verif/work/seedeval/{name}.{p}.log", "w").write(out)
            except Exception:
                pass
            viol = [l for l in out.splitlines() if l.startswith("VIOLATION")]
            whats = [l.strip()[:400] for l in out.splitlines() if l.strip().startswith("what:")]
            summary = [l for l in out.splitlines() if l.startswith(f"[{p}]")]
            res["checks"][p] = {"exit": rc, "violations": len(viol), "first_what": whats[:2], "summary": summary[-1:] , "wall_s": round(time.time() - t0, 1),
                                "harness_error": "HARNESS ERROR" in out}
        return res
    except Exception as e:
        res["error"] = repr(e)
        return res
    finally:
        shutil.rmtree(base, ignore_errors=True)
        os.makedirs("/verif/work/seedeval", exist_ok=True)
        json.dump(res, open(f"/verif/work/seedeval/{name}.json", "w"), indent=1)


def main():
    args = sys.argv[1:]
    tier, jobs, props = "quick", 3, None
    seeds = []
    i = 0
    while i < len(args):
        if args[i] == "--tier":
            tier = args[i + 1]; i += 2
        elif args[i] == "--jobs":
            jobs = int(args[i + 1]); i += 2
        elif args[i] == "--props":
            props = args[i + 1].split(","); i += 2
        else:
            seeds.append(args[i]); i += 1
    os.makedirs(SCR, exist_ok=True)
    with ThreadPoolExecutor(max_workers=jobs) as ex:
        for r in ex.map(lambda s: evaluate(s, tier, props), seeds):
            c = r.get("checks", {})
            line = f"{r['name']:14} prop={r.get('property')} applies={r.get('applies')} builds={r.get('builds')} suite={r.get('suite_passes')} demo_unchanged_ok={r.get('demo_passes_unchanged')} demo_fails={r.get('demo_fails_with_change')} "
            for p, v in c.items():
                line += f"| {p}: exit={v['exit']} viol={v['violations']} {v['wall_s']}s "
            print(line, flush=True)
            if r.get("error"):
                print("   ERROR", r["error"], flush=True)


if __name__ == "__main__":
    main()
