#!/usr/bin/env python3
"""Per-property as-built numbers from evidence directories: asbuilt.py <quick evidence dir> <thorough evidence dir>"""
import json, sys, os
q, t = sys.argv[1], sys.argv[2]
print("| property | quick: evaluations / distinct non-trivial / wall | thorough: evaluations / distinct non-trivial / wall | what the monitors observed (thorough run) |")
print("|---|---|---|---|")
KEYS = {
 "C01": ["items", "bytes_compared", "reads", "past_count_probes", "asan_cases_run"],
 "C02": ["entries_compared", "values_compared", "entries_compared_through_converted_range", "past_window_probes", "unrepresentable_inputs_refused"],
 "C03": ["lookups", "lookups_present", "lookups_absent", "lookups_on_converted_range", "lookups_single_property_constructor", "order_pairs_checked", "find_exhaustive.calls"],
 "C04": ["damage_cases_run.debug", "damage_cases_run.release", "op.crc-refit", "check_outcome.ok", "check_outcome.err", "command_line_check_outcome.ok", "command_line_check_outcome.err", "in_place_alterations_under_open_handles", "pristine_checks", "pristine_checks_concurrent", "pristine_checks_by_command_line"],
 "C05": ["items_identical", "content_bytes_differ", "cases_with_reported_errors"],
 "C06": ["items_dumped", "concurrent_reads_of_damaged_clusters", "asan_cases_run", "memcheck_cases_run"],
 "C07": ["first_accesses_entered_together(rendezvous)", "hook.reads_that_blocked", "hook.slices_during_decode", "clusters_parsed_more_than_once(evicted)", "max:simultaneous_decodes", "decoder_stalls_of_650ms_injected", "tsan_cases_run", "asan_cases_run", "miri_executions_ok"],
 "C08": ["clusters", "events", "inversions", "runs_with_queue_pressure", "max:compressed_clusters_in_flight", "tsan_cases_run"],
 "C09": ["child.interrupted.death", "child.interrupted.error", "child.interrupted.transient", "child.interrupted.sigkill", "child.interrupted.eio-once", "child.interrupted.eio-from", "child.interrupted.kill", "previous_multi_file_container_intact_after_failed_one_file_creation", "state.absent", "state.old", "state.new-complete"],
 "C10": ["scenarios", "items_compared", "joined_by_command_line", "max:packs_in_one_container", "scenario.extras-via-symlinked-directory", "scenario.many-packs-onefile"],
 "C11": ["scenarios", "packs_unavailable", "scenarios_with_damaged_present_pack", "scenario.parent-is-a-file", "scenario.loose-embedded", "embedded_packs_with_stale_location"],
 "C12": ["rewrites", "effective_rewrites", "library_readbacks", "rewrites_by_command_line", "command_line_readbacks"],
 "C13": ["views.stream", "views.get_slice", "views.slice", "views.read_exact", "views.read_exact_past_end_refused", "bytes_compared", "asan_cases_run", "miri_roundtrips_ok"],
 "C14": ["files_decoded", "bytes_decoded", "entries_decoded", "clusters_decoded", "free_data_comparisons", "container_listings_compared", "corpus_files_read"],
 "C15": ["handles_compared", "values_compared", "references_compared", "tsan_cases_run"],
 "C16": ["checked.must_be_raw", "checked.must_be_compressed", "verbatim_checks", "compressed_blob_checks", "dedup_repeats", "cases_created_on_restricted_cpus"],
}
for i in range(1, 17):
    p = f"C{i:02d}"
    def load(d):
        try:
            return json.load(open(os.path.join(d, p + ".json")))
        except Exception:
            return None
    eq, et = load(q), load(t)
    def cell(e):
        if not e: return "-"
        c = e["coverage"]
        return f"{c['evaluations']} / {c['distinct_nontrivial']} / {e['wall_s']:.0f} s" + (" (exhaustive over the small specimens)" if c.get("exhaustive") else "")
    obs = ""
    if et:
        n = et["coverage"]["observed"]["counts"]
        obs = ", ".join(f"{k}={n[k]}" for k in KEYS.get(p, []) if k in n)
        sets = et["coverage"]["observed"].get("sets", {})
        if p == "C07" and "schedule_signatures" in sets:
            obs += f", distinct schedule signatures={sets['schedule_signatures']['count']}"
    print(f"| {p} | {cell(eq)} | {cell(et)} | {obs} |")
