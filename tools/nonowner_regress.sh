cd /verif
run() { python3 tools/evalseeds.py --jobs 1 --props $1 /verif/seeded/$2; }
( run C07 C13-A; run C07 R2-C13-B; run C03 R3-C02-A; run C10,C11 R4-C01-A; run C06 R4-C07-B ) > work/nonowner1.log 2>&1 &
( run C03,C15 R5-C02-B; run C12 R5-C10-B; run C07 R6-C01-B; run C03,C15 R6-C02-B; run C15 R7-C02-A ) > work/nonowner2.log 2>&1 &
( run C04 R7-C05-B; run C04 R7-C10-B; run C10 R7-C11-B; run C05 R7-C13-A; run C10,C11 R7-C14-B ) > work/nonowner3.log 2>&1 &
wait
