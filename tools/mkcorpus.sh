#!/bin/bash
# Regenerate /verif/corpus with the pinned version of the library (fc3306d). Everything is built outside /repo and /verif
# and removed afterwards.
set -e
rm -rf /tmp/pinned-jubako /tmp/corpusgen-build
git -C /repo worktree add --detach /tmp/pinned-jubako fc3306d -q
cp /repo/Cargo.lock /tmp/pinned-jubako/
mkdir -p /tmp/corpusgen-build
cp -r /verif/tools/corpusgen/* /tmp/corpusgen-build/
cp /repo/Cargo.lock /tmp/corpusgen-build/
(cd /tmp/corpusgen-build && CARGO_NET_OFFLINE=true cargo build --offline 2>&1 | grep -E "^error|Finished" ; ./target/debug/corpusgen /verif/corpus)
git -C /repo worktree remove --force /tmp/pinned-jubako
rm -rf /tmp/corpusgen-build
du -sh /verif/corpus
