#!/usr/bin/env python3
"""Markdown table of /verif/seeded/*/meta.json for DESIGN.md section 15."""
import json, glob, os
rows = []
for f in sorted(glob.glob("/verif/seeded/*/meta.json")):
    m = json.load(open(f)); sid = f.split("/")[-2]; ev = m.get("evaluation", {})
    caught = ev.get("caught_by") or []
    checks = ev.get("checks") or {}
    ran = ", ".join(f"{p}:{'caught' if v['exit']==1 and v['violations_reported'] else 'silent'}" for p, v in sorted(checks.items()))
    summ = (m.get("summary") or "").replace("|", "/").replace("\n", " ")
    need = (m.get("needs_to_manifest") or "").replace("|", "/").replace("\n", " ")
    rows.append(f"| {sid} | {m.get('property')} | {summ[:170]} | {need[:150]} | {ran} |")
print("| id | breaks | change | needs | quick checks run against it |")
print("|---|---|---|---|---|")
print("\n".join(rows))
