#!/bin/bash
# usage: tryseed.sh <patch.diff> <PROP> [tier] [seed]  -- apply a seeded change to /repo, run the check, undo it
set -u
patch=$1; prop=$2; tier=${3:-quick}; seed=${4:-1}
cd /repo || exit 9
git apply --check "$patch" || { echo "PATCH DOES NOT APPLY"; exit 9; }
git apply "$patch"
cd /verif
VERIF_SEED=$seed timeout 3600 ./check run "$prop" --tier "$tier" > /tmp/tryseed.$$.log 2>&1
rc=$?
git -C /repo checkout -- .
grep -E "VIOLATION|KNOWN-FINDING|^\[|what:" /tmp/tryseed.$$.log | cut -c1-400 | head -12
echo "exit=$rc"
rm -f /tmp/tryseed.$$.log
rm -rf /verif/replays
